#!/bin/sh
# Offline set-up: hypothesis beside the repository's packages (already
# present in /venv on this image; installed from the wheelhouse otherwise) and
# the optional allocator shim (speed only).
cd "$(dirname "$0")" || exit 1
/venv/bin/python -c "import hypothesis" 2>/dev/null || \
  /venv/bin/pip install --no-index --find-links /opt/veriftools/wheels hypothesis
( cd native && cc -O2 -shared -fPIC -o libfastarena.so fastarena.c ) || \
  echo "note: allocator shim not built (checks run without it, slower)"
/venv/bin/python -c "import hypothesis, sys; sys.path.insert(0, '.'); import qv.run" || exit 1
echo setup ok
