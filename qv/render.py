"""Renderer: AST -> QBASIC source text under a style.

Parentheses are inserted only where QBASIC precedence requires them, so a
precedence or associativity error in the grammar under test changes the
meaning of the rendered text.  The renderer also returns, for every statement
object, the line(s) on which it was written (ground truth for source
positions)."""
import random
import struct

from . import ast as A

PREC = {
    '^': 13, 'neg': 12, 'pos': 12, '*': 11, '/': 11, '\\': 10, 'MOD': 9,
    '+': 8, '-': 8,
    '=': 7, '<>': 7, '<': 7, '>': 7, '<=': 7, '>=': 7,
    'NOT': 6, 'AND': 5, 'OR': 4, 'XOR': 3, 'EQV': 2, 'IMP': 1,
}
RELOPS = ('=', '<>', '<', '>', '<=', '>=')
WORD_OPS = ('MOD', 'AND', 'OR', 'XOR', 'EQV', 'IMP', 'NOT')


def f32(x):
    try:
        return struct.unpack('>f', struct.pack('>f', x))[0]
    except OverflowError:
        return float('inf') if x > 0 else float('-inf')


class Style:
    """All spelling choices.  seed == 0 and default fields = canonical style:
    upper-case keywords, lower-case identifiers, single blanks, one statement
    per line, no comments."""

    def __init__(self, seed=0, kwcase='upper', idcase='lower',
                 spacing='normal', comments=False, join=0.0, let=0.0,
                 call_kw=0.0, next_var=1.0, ne_alt=0.0, blank_lines=0.0,
                 labels='keep', end_space=False):
        self.seed = seed
        self.kwcase = kwcase
        self.idcase = idcase
        self.spacing = spacing
        self.comments = comments
        self.join = join
        self.let = let
        self.call_kw = call_kw
        self.next_var = next_var
        self.ne_alt = ne_alt
        self.blank_lines = blank_lines
        self.labels = labels
        self.end_space = end_space

    def to_json(self):
        return dict(self.__dict__)

    @classmethod
    def from_json(cls, d):
        return cls(**d)


PLAIN = Style()


class Rendered:
    def __init__(self, text, pos, label_map):
        self.text = text
        self.pos = pos              # id(stmt) -> dict(line=, end_line=, ...)
        self.label_map = label_map  # AST label -> rendered label

    def line_of(self, stmt):
        return self.pos[id(stmt)]['line']


def expr_prec(e):
    if isinstance(e, A.Bin):
        return PREC[e.op]
    if isinstance(e, A.Un):
        return PREC['NOT'] if e.op == 'NOT' else PREC['neg']
    return 14


class Renderer:
    def __init__(self, style=PLAIN):
        self.st = style
        self.rng = random.Random(style.seed)
        self.lines = []          # finished lines
        self.cur = []            # statements of the line being built
        self.cur_label = None
        self.pos = {}
        self.label_map = {}
        self._used_labels = set()
        self.no_comment = False   # current line must not get a comment
        self.must_break = False   # current line is closed for joining

    # ------------------------------------------------------------ spelling
    def kw(self, word):
        m = self.st.kwcase
        if m == 'upper':
            return word.upper()
        if m == 'lower':
            return word.lower()
        return ''.join(c.upper() if self.rng.random() < 0.5 else c.lower()
                       for c in word)

    def ident(self, name):
        m = self.st.idcase
        if m == 'lower':
            return name
        if m == 'upper':
            return name.upper()
        return ''.join(c.upper() if self.rng.random() < 0.5 else c.lower()
                       for c in name)

    def sp(self):
        """Mandatory blank between two word tokens."""
        m = self.st.spacing
        if m in ('normal', 'tight'):
            return ' '
        return ' ' * self.rng.randint(1, 3)

    def osp(self):
        """Optional blank around punctuation / symbolic operators."""
        m = self.st.spacing
        if m == 'normal':
            return ' '
        if m == 'tight':
            return ''
        return ' ' * self.rng.randint(0, 2)

    def label_text(self, name):
        """Rendered spelling of a label (behaviour-neutral renaming)."""
        if name in self.label_map:
            return self.label_map[name]
        mode = self.st.labels
        if mode == 'keep':
            out = str(name)
        elif mode == 'numbers':
            out = str(1000 + 10 * len(self.label_map))
        else:  # 'names'
            out = 'lb%sx' % (len(self.label_map) + 1)
        self.label_map[name] = out
        return out

    # --------------------------------------------------------- expressions
    def num(self, e):
        if e.text is not None:
            return e.text
        return default_num_text(e.t, e.v)

    def expr(self, e):
        if isinstance(e, A.Num):
            return self.num(e)
        if isinstance(e, A.Str):
            return '"%s"' % e.v
        if isinstance(e, A.ConstRef):
            return self.ident(e.name)
        if isinstance(e, A.LV):
            return self.lv(e)
        if isinstance(e, A.Paren):
            return '(' + self.osp_in() + self.expr(e.e) + self.osp_in() + ')'
        if isinstance(e, A.ArrPass):
            return self.ident(e.name) + '()'
        if isinstance(e, A.Un):
            return self.unary(e)
        if isinstance(e, A.Bin):
            return self.binary(e)
        if isinstance(e, A.BCall):
            return self.bcall(e)
        if isinstance(e, A.FCall):
            s = self.ident(e.name)
            if e.args:
                s += '(' + self.arglist(e.args) + ')'
            return s
        raise TypeError(e)

    def osp_in(self):
        return '' if self.st.spacing in ('normal', 'tight') else \
            ' ' * self.rng.randint(0, 1)

    def arglist(self, args):
        sep = ',' + self.osp()
        return sep.join(self.expr(a) for a in args)

    def lv(self, e):
        s = self.ident(e.name)
        if e.idx:
            s += '(' + self.arglist(e.idx) + ')'
        for f in e.fields:
            s += '.' + self.ident(f)
        return s

    def paren_if(self, e, need):
        s = self.expr(e)
        return '(' + s + ')' if need else s

    def unary(self, e):
        p = expr_prec(e)
        inner = e.e
        if e.op == 'NOT':
            need = expr_prec(inner) < PREC['='] or (
                isinstance(inner, A.Un) and inner.op != 'NOT' and False)
            return self.kw('NOT') + self.sp() + self.paren_if(inner, need)
        sym = '-' if e.op == 'neg' else '+'
        need = expr_prec(inner) < p or isinstance(inner, A.Un)
        s = self.paren_if(inner, need)
        return sym + s

    def binary(self, e):
        p = PREC[e.op]
        lp, rp = expr_prec(e.l), expr_prec(e.r)
        if e.op == '^':
            # qbee parses a^b^c right-associatively (pinned by its tests),
            # QBASIC left-associatively: never leave a chain unparenthesised.
            nl, nr = lp <= p, rp <= p
        elif e.op in RELOPS:
            nl, nr = lp <= p, rp <= p
        else:
            nl, nr = lp < p, rp <= p
        # a unary minus / NOT as left operand of a tighter operator
        ls = self.paren_if(e.l, nl)
        rs = self.paren_if(e.r, nr)
        if e.op in WORD_OPS:
            return ls + self.sp() + self.kw(e.op) + self.sp() + rs
        op = e.op
        if op == '<>' and self.rng.random() < self.st.ne_alt:
            op = '><'
        gap = self.osp()
        if op in ('-', '+') and rs[:1] in '+-' and gap == '':
            gap = ' '
        return ls + gap + op + gap + rs

    def bcall(self, e):
        s = self.kw(e.fn)
        if e.args:
            s += '(' + self.arglist(e.args) + ')'
        return s

    # ---------------------------------------------------------- statements
    def type_word(self, t):
        if A.is_rec(t):
            return self.ident(t[2:])
        return self.kw(A.TYPE_WORD[t])

    def decl(self, d):
        s = self.ident(d.name)
        if d.dims is not None:
            parts = []
            for lo, hi in d.dims:
                if lo is None:
                    parts.append(self.expr(hi))
                else:
                    parts.append(self.expr(lo) + self.sp() + self.kw('TO') +
                                 self.sp() + self.expr(hi))
            s += '(' + (',' + self.osp()).join(parts) + ')'
        if d.as_clause:
            s += self.sp() + self.kw('AS') + self.sp() + self.type_word(d.t)
        return s

    def param(self, p):
        s = self.ident(p.name)
        if p.is_array:
            s += '()'
        if p.as_clause:
            s += self.sp() + self.kw('AS') + self.sp() + self.type_word(p.t)
        return s

    def simple_text(self, s, force_call=False):
        """Text of a simple statement (no line structure)."""
        K, S = self.kw, self.sp
        if isinstance(s, A.Assign):
            pre = ''
            if self.rng.random() < self.st.let:
                pre = K('LET') + S()
            return pre + self.lv(s.lv) + self.osp() + '=' + self.osp() + \
                self.expr(s.e)
        if isinstance(s, A.RetAssign):
            return self.ident(s.fname) + self.osp() + '=' + self.osp() + \
                self.expr(s.e)
        if isinstance(s, A.Print):
            out = K('PRINT')
            if s.using is not None:
                out += S() + K('USING') + S() + self.expr(s.using) + ';'
            first = True
            prev_sep = True
            for it in s.items:
                if it in (';', ','):
                    out += it
                    prev_sep = True
                else:
                    out += (S() if first or prev_sep else ' ') + self.expr(it)
                    prev_sep = False
                first = False
            return out
        if isinstance(s, A.Goto):
            return K('GOTO') + S() + self.label_text(s.target)
        if isinstance(s, A.Gosub):
            return K('GOSUB') + S() + self.label_text(s.target)
        if isinstance(s, A.Return):
            return K('RETURN')
        if isinstance(s, A.CallSub):
            if self.rng.random() < self.st.call_kw or (
                    force_call and not s.args):
                out = K('CALL') + S() + self.ident(s.name)
                if s.args:
                    out += '(' + self.arglist(s.args) + ')'
                return out
            out = self.ident(s.name)
            if s.args:
                a0 = self.arglist(s.args)
                out += ' ' + a0
            return out
        if isinstance(s, A.Dim):
            head = {'dim': K('DIM'), 'shared': K('DIM') + S() + K('SHARED'),
                    'static': K('STATIC')}[s.kind]
            return head + S() + (',' + self.osp()).join(
                self.decl(d) for d in s.decls)
        if isinstance(s, A.Const):
            return K('CONST') + S() + self.ident(s.name) + self.osp() + '=' \
                + self.osp() + self.expr(s.e)
        if isinstance(s, A.DefType):
            word = {'%': 'DEFINT', '&': 'DEFLNG', '!': 'DEFSNG',
                    '#': 'DEFDBL', '$': 'DEFSTR'}[s.t]
            rs = []
            for a, b in s.ranges:
                rs.append(self.ident(a) if b is None
                          else self.ident(a) + '-' + self.ident(b))
            return K(word) + S() + (',' + self.osp()).join(rs)
        if isinstance(s, A.Data):
            return K('DATA') + ' ' + s.raw if s.raw else K('DATA')
        if isinstance(s, A.Read):
            return K('READ') + S() + (',' + self.osp()).join(
                self.lv(v) for v in s.lvs)
        if isinstance(s, A.Restore):
            if s.target is None:
                return K('RESTORE')
            return K('RESTORE') + S() + self.label_text(s.target)
        if isinstance(s, A.Input):
            out = K('INPUT')
            if s.sameline:
                out += self.osp() + ';'
            if s.prompt is not None:
                out += S() + '"%s"' % s.prompt + s.sep
            out += S() + (',' + self.osp()).join(self.lv(v) for v in s.lvs)
            return out
        if isinstance(s, A.OnError):
            out = K('ON') + S() + K('ERROR') + S()
            if s.target == 'next':
                return out + K('RESUME') + S() + K('NEXT')
            if s.target == 0:
                return out + K('GOTO') + S() + '0'
            return out + K('GOTO') + S() + self.label_text(s.target)
        if isinstance(s, A.Resume):
            return K('RESUME') + (S() + K('NEXT') if s.next else '')
        if isinstance(s, A.End):
            return K('END')
        if isinstance(s, A.Exit):
            return K('EXIT') + S() + K(s.what)
        if isinstance(s, A.Dev):
            return self.dev_text(s)
        if isinstance(s, A.Rem):
            return K('REM') + (' ' + s.text if s.text else '')
        if isinstance(s, A.Raw):
            return s.text
        raise TypeError(s)

    def dev_text(self, s):
        K, S = self.kw, self.sp
        k = s.kind
        ex = [None if a is None else self.expr(a) for a in s.args]
        comma = ',' + self.osp()
        if k in ('CLS', 'BEEP'):
            return K(k)
        if k == 'COLOR' or k == 'LOCATE':
            last = max(i for i, a in enumerate(ex) if a is not None)
            return K(k) + S() + comma.join(
                (a or '') for a in ex[:last + 1]).lstrip()
        if k in ('SOUND', 'POKE'):
            return K(k) + S() + ex[0] + comma + ex[1]
        if k in ('PLAY', 'RANDOMIZE', 'SCREEN', 'KILL'):
            return K(k) + S() + ex[0]
        if k == 'DEF SEG':
            out = K('DEF') + S() + K('SEG')
            if ex and ex[0] is not None:
                out += self.osp() + '=' + self.osp() + ex[0]
            return out
        if k == 'WIDTH':
            if ex[0] is None:
                return K(k) + S() + ',' + self.osp() + ex[1]
            if len(ex) < 2 or ex[1] is None:
                return K(k) + S() + ex[0]
            return K(k) + S() + ex[0] + comma + ex[1]
        if k == 'VIEW PRINT':
            out = K('VIEW') + S() + K('PRINT')
            if ex:
                out += S() + ex[0] + S() + K('TO') + S() + ex[1]
            return out
        raise ValueError(k)

    # ------------------------------------------------------ line structure
    def flush(self):
        if self.cur or self.cur_label is not None:
            line = ''
            if self.cur_label is not None:
                line = self.cur_label
                if self.cur:
                    line += ' '
            joiner = ':' if self.st.spacing == 'tight' else \
                (self.osp_in() + ':' + self.osp())
            line += joiner.join(self.cur)
            if self.st.comments and not self.no_comment and \
                    self.rng.random() < 0.3:
                line += (' ' if line else '') + "' " + self.rng.choice(
                    ['note', 'x = 1', 'PRINT "a"', 'END', '',
                     'a\x0cPRINT "ff"', 'b\x0bEND', 'c\x1cx = 1',
                     'd\x1dGOTO 10', 'e\x1ePRINT "rs"'])
            if self.st.end_space and self.rng.random() < 0.3:
                line += ' '
            indent = ''
            if self.st.spacing == 'random' and self.rng.random() < 0.4:
                indent = ' ' * self.rng.randint(1, 4)
            self.lines.append(indent + line)
        self.cur = []
        self.cur_label = None
        self.no_comment = False
        self.must_break = False
        if self.st.blank_lines and self.rng.random() < self.st.blank_lines:
            if self.st.comments and self.rng.random() < 0.5:
                self.lines.append("' " + self.rng.choice(
                    ['comment', 'GOTO 10', '"', ': :',
                     'p\x0cPRINT "ff"', 'q\x1cEND']))
            else:
                self.lines.append('')

    def cur_line_no(self):
        return len(self.lines) + 1

    def emit(self, text, stmt=None, alone=False, last=False, first=False,
             key='line'):
        """Add one statement text to the current line (or a new one).

        alone: the statement must be the only one on its line;
        last: nothing may follow it on the line; first: it must start a
        line."""
        if self.must_break or alone or first or (
                self.cur and self.rng.random() >= self.st.join):
            self.flush()
        self.cur.append(text)
        if stmt is not None:
            d = self.pos.setdefault(id(stmt), {})
            d[key] = self.cur_line_no()
            d.setdefault('idx_' + key, len(self.cur) - 1)
        if alone or last:
            self.must_break = True

    def body(self, stmts):
        for s in stmts:
            self.stmt(s)

    def stmt(self, s):
        K, S = self.kw, self.sp
        if isinstance(s, A.LabelDef):
            self.flush()
            txt = self.label_text(s.name)
            self.cur_label = txt if txt.isdigit() else txt + ':'
            self.pos.setdefault(id(s), {})['line'] = self.cur_line_no()
            return
        if isinstance(s, A.If):
            for i, (cond, body) in enumerate(s.arms):
                head = (K('IF') if i == 0 else K('ELSEIF')) + S() + \
                    self.expr(cond) + S() + K('THEN')
                self.emit(head, s, alone=True,
                          key='line' if i == 0 else 'arm%d' % i)
                self.body(body)
            if s.else_body is not None:
                self.emit(K('ELSE'), s, alone=True, key='else')
                self.body(s.else_body)
            self.emit(K('END') + S() + K('IF'), s, alone=True, key='end_line')
            return
        if isinstance(s, A.IfLine):
            txt = K('IF') + S() + self.expr(s.cond) + S() + K('THEN') + S()
            sep = ':' if self.st.spacing == 'tight' else ': '
            inner_line = None
            parts = [self.simple_text(x, True) for x in s.then]
            txt += sep.join(parts)
            if s.els is not None:
                txt += S() + K('ELSE')
                if s.els:
                    txt += S() + sep.join(self.simple_text(x, True)
                                          for x in s.els)
            self.emit(txt, s, last=True)
            ln = self.pos[id(s)]['line']
            for x in list(s.then) + list(s.els or []):
                self.pos.setdefault(id(x), {})['line'] = ln
            if any(isinstance(x, (A.Rem, A.Data)) for x in
                   list(s.then) + list(s.els or [])):
                self.no_comment = True
            return
        if isinstance(s, A.For):
            head = K('FOR') + S() + self.lv(s.var) + self.osp() + '=' + \
                self.osp() + self.expr(s.a) + S() + K('TO') + S() + \
                self.expr(s.b)
            if s.step is not None:
                head += S() + K('STEP') + S() + self.expr(s.step)
            self.emit(head, s)
            self.body(s.body)
            tail = K('NEXT')
            if self.rng.random() < self.st.next_var:
                tail += S() + self.lv(s.var)
            self.emit(tail, s, key='end_line')
            return
        if isinstance(s, A.While):
            self.emit(K('WHILE') + S() + self.expr(s.cond), s)
            self.body(s.body)
            self.emit(K('WEND'), s, key='end_line')
            return
        if isinstance(s, A.Do):
            head = K('DO')
            tail = K('LOOP')
            if s.kind in ('do_while', 'do_until'):
                head += S() + K(s.kind[3:]) + S() + self.expr(s.cond)
            elif s.kind in ('loop_while', 'loop_until'):
                tail += S() + K(s.kind[5:]) + S() + self.expr(s.cond)
            self.emit(head, s)
            self.body(s.body)
            self.emit(tail, s, key='end_line')
            return
        if isinstance(s, A.Select):
            self.emit(K('SELECT') + S() + K('CASE') + S() + self.expr(s.e),
                      s, last=True)
            for i, (clauses, body) in enumerate(s.cases):
                cs = []
                for c in clauses:
                    if c[0] == 'v':
                        cs.append(self.expr(c[1]))
                    elif c[0] == 'range':
                        cs.append(self.expr(c[1]) + S() + K('TO') + S() +
                                  self.expr(c[2]))
                    else:
                        op = c[1]
                        cs.append(K('IS') + S() + op + self.osp() +
                                  self.expr(c[2]))
                self.emit(K('CASE') + S() + (',' + self.osp()).join(cs), s,
                          first=True, key='case%d' % i)
                self.body(body)
            if s.else_body is not None:
                self.emit(K('CASE') + S() + K('ELSE'), s, first=True,
                          key='else')
                self.body(s.else_body)
            self.emit(K('END') + S() + K('SELECT'), s, first=True,
                      key='end_line')
            return
        if isinstance(s, A.TypeDef):
            self.emit(K('TYPE') + S() + self.ident(s.name), s, alone=True)
            for fname, ft in s.fields:
                self.emit(self.ident(fname) + S() + K('AS') + S() +
                          self.type_word(ft), None, alone=True)
            self.emit(K('END') + S() + K('TYPE'), s, alone=True,
                      key='end_line')
            return
        if isinstance(s, A.Proc):
            head = K('SUB' if s.kind == 'sub' else 'FUNCTION') + S() + \
                self.ident(s.name)
            if s.params:
                head += self.osp_in() + '(' + (',' + self.osp()).join(
                    self.param(p) for p in s.params) + ')'
            if s.static:
                head += S() + K('STATIC')
            self.emit(head, s, alone=True)
            self.body(s.body)
            self.emit(K('END') + S() +
                      K('SUB' if s.kind == 'sub' else 'FUNCTION'), s,
                      alone=True, key='end_line')
            return
        # simple statements
        txt = self.simple_text(s)
        if isinstance(s, A.Raw):
            self.emit(txt, s, alone=s.alone)
            self.no_comment = True
        elif isinstance(s, (A.Rem, A.Data)):
            self.emit(txt, s, last=True)
            self.no_comment = True
        elif isinstance(s, A.CallSub) and not txt.upper().startswith('CALL') \
                and not s.args:
            # a bare `name` followed by ':' would read as a label
            self.emit(txt, s, alone=True)
        else:
            self.emit(txt, s)

    def render(self, prog):
        self.body(prog.body)
        self.flush()
        text = '\n'.join(self.lines)
        if self.lines:
            text += '\n'
        return Rendered(text, self.pos, dict(self.label_map))


def render(prog, style=PLAIN):
    return Renderer(style).render(prog)


def default_num_text(t, v):
    """Canonical spelling of a non-negative literal of type t with value v,
    such that qbee's and QBASIC's literal rules give exactly (t, v)."""
    if t == '%':
        return str(v) if v <= 32767 else None
    if t == '&':
        return str(v) if v > 32767 else str(v) + '&'
    if t == '!':
        return single_text(v)
    if t == '#':
        return double_text(v)
    raise ValueError(t)


def single_text(v):
    """Shortest decimal text (<= 9 digits) that reads back as float32 v; with
    an explicit '!' unless it contains '.' or an exponent."""
    for nd in range(1, 10):
        s = '%.*g' % (nd, v)
        if f32(float(s)) == v:
            break
    if 'e' in s:
        mant, ex = s.split('e')
        if '.' not in mant:
            mant += '.0'
        return mant + 'E' + ('+' if int(ex) >= 0 else '-') + str(abs(int(ex)))
    if '.' in s:
        digits = len(s.replace('.', '').lstrip('0'))
        return s if digits <= 7 else s + '!'
    return s + '!'


def double_text(v):
    s = repr(float(v))
    if 'e' in s:
        mant, ex = s.split('e')
        return mant + 'D' + ('+' if int(ex) >= 0 else '-') + str(abs(int(ex)))
    if s.endswith('.0'):
        s = s[:-2]
    return s + '#'
