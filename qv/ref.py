"""R - reference interpreter for the AST of qv.ast.

Written from the language definition (QBASIC semantics, with the details the
repository's own tests pin, see DESIGN.md 3.2).  Shares no code with qbee.

Produces a normalised event trace (same vocabulary as qv.trace.normalise of a
real run) and an outcome."""
import math
import struct

from . import ast as A

F32_MAX = 3.4028234663852886e+38

# error classes -> the trap code the virtual machine must report
# value of ERR for each error class (the trap code's number)
ERR_CODE = {'OVERFLOW': 10, 'DIV0': 14, 'SUBSCRIPT': 11, 'ILLEGAL_CALL': 9,
            'OUT_OF_DATA': 3, 'DATA_TYPE': 3, 'DEVICE': 3}

TRAP_OF = {
    'OVERFLOW': 'INVALID_CELL_VALUE',
    'DIV0': 'DIVISION_BY_ZERO',
    'SUBSCRIPT': 'INDEX_OUT_OF_RANGE',
    'ILLEGAL_CALL': 'INVALID_OPERAND_VALUE',
    'OUT_OF_DATA': 'DEVICE_ERROR',
    'DATA_TYPE': 'DEVICE_ERROR',
    'DEVICE': 'DEVICE_ERROR',
}


class QError(Exception):
    def __init__(self, cls, msg=''):
        Exception.__init__(self, cls, msg)
        self.cls = cls
        self.msg = msg
        self.stmt = None


class Unsupported(Exception):
    """The program left the reference subset (case is inconclusive)."""


class _Jump(Exception):
    def __init__(self, label):
        self.label = label


class _Return(Exception):
    pass


class _End(Exception):
    pass


class _ExitLoop(Exception):
    def __init__(self, what):
        self.what = what


class _ExitProc(Exception):
    pass


class _SkipStmt(Exception):
    """RESUME NEXT after an error in the header of the current statement."""


class _Resume(Exception):
    def __init__(self, next):
        self.next = next


class InputExhausted(Exception):
    pass


class Budget(Exception):
    pass


def f32(x):
    return struct.unpack('>f', struct.pack('>f', x))[0]


class Cell:
    __slots__ = ('t', 'v', 'assigned')

    def __init__(self, t):
        self.t = t
        self.v = '' if t == '$' else (0 if t in '%&' else 0.0)
        self.assigned = False


class Record:
    __slots__ = ('tname', 'fields')

    def __init__(self, interp, tname):
        self.tname = tname
        self.fields = {}
        for f, ft in interp.types[tname]:
            self.fields[f] = interp.new_storage(ft)


class Array:
    __slots__ = ('t', 'dims', 'cells', 'interp')

    def __init__(self, interp, t, dims):
        self.t = t
        self.dims = dims
        self.cells = {}
        self.interp = interp

    def element(self, idx):
        if len(idx) != len(self.dims):
            raise Unsupported('rank mismatch')
        for i, (lo, hi) in zip(idx, self.dims):
            if i < lo or i > hi:
                raise QError('SUBSCRIPT')
        key = tuple(idx)
        c = self.cells.get(key)
        if c is None:
            c = self.interp.new_storage(self.t)
            self.cells[key] = c
        return c


class Frame:
    def __init__(self, proc, depth):
        self.proc = proc          # None for the main program
        self.vars = {}
        self.consts = {}
        self.depth = depth
        self.retval = None


class Interp:
    def __init__(self, prog, script=None, rendered=None, dev=(),
                 max_steps=200000, rnd_seeded=None, trace_stmts=False):
        self.prog = prog
        self.script = script or {}
        self.rendered = rendered
        self.dev = set(dev)            # deviation switches (known findings)
        self.fired = set()
        self.events = []
        self.print_stmts = []          # the statement of every PRINT event
        self.types = {}
        self.procs = {}
        self.gconsts = {}
        self.shared = {}
        self.deftype = {}
        self.statics = {}              # proc name -> {name: storage}
        self.main = Frame(None, 0)
        self.frame = self.main
        self.steps = 0
        self.max_steps = max_steps
        self.cur_stmt = None
        self.i_input = self.i_rnd = self.i_timer = self.i_inkey = 0
        self.last_rnd = None
        self.rnd_seeded = rnd_seeded or (lambda s: abs(s) % 1.0)
        self.trace_stmts = trace_stmts
        self.stmt_trace = []
        self.snapshots = None
        # error handling state (C10)
        self.handler = None            # label | 'next' | None
        self.in_handler = False
        self.err_code = None
        self.err_cls = None
        self.used_features = set()
        self._index_program()

    # ------------------------------------------------------------ set-up
    def _index_program(self):
        self.top = self.prog.body
        self.top_labels = {}
        for i, s in enumerate(self.top):
            if isinstance(s, A.LabelDef):
                self.top_labels[s.name] = i
        # DATA items in source order; label -> index of the first item at or
        # after the label
        self.data = []
        self.label_data_pos = {}
        pending = []

        def visit(body):
            for s in body:
                if isinstance(s, A.LabelDef):
                    pending.append(s.name)
                elif isinstance(s, A.Data):
                    for lb in pending:
                        self.label_data_pos[lb] = len(self.data)
                    del pending[:]
                    self.data.extend(tokenize_data(s.raw))
                elif isinstance(s, A.Proc):
                    self.procs[s.name.rstrip('%&!#$')] = s
                    visit(s.body)
                elif isinstance(s, A.TypeDef):
                    self.types[s.name] = s.fields
                else:
                    for b in A.child_bodies(s):
                        visit(b)
        visit(self.top)
        for lb in pending:
            self.label_data_pos[lb] = len(self.data)
        self.data_pos = 0
        for s in self.top:
            if isinstance(s, A.DefType):
                for a, b in s.ranges:
                    for c in range(ord(a), ord(b or a) + 1):
                        self.deftype[chr(c)] = s.t

    # ----------------------------------------------------------- storage
    def new_storage(self, t):
        if A.is_rec(t):
            return Record(self, t[2:])
        return Cell(t)

    def name_type(self, name):
        if name[-1] in '%&!#$':
            return name[-1]
        return self.deftype.get(name[0], '!')

    def lookup(self, name, create_array_rank=None):
        """Storage bound to a name in the current frame (created implicitly
        if it does not exist)."""
        f = self.frame
        st = f.vars.get(name)
        if st is not None:
            return st
        if f.proc is not None:
            sv = self.statics.get(f.proc.name, {})
            if name in sv:
                return sv[name]
            if name in self.shared:
                return self.shared[name]
        t = self.name_type(name)
        if create_array_rank:
            st = Array(self, t, [(0, 10)] * create_array_rank)
        else:
            st = Cell(t)
        if f.proc is not None and f.proc.static:
            self.statics.setdefault(f.proc.name, {})[name] = st
        else:
            f.vars[name] = st
        return st

    def find_const(self, name):
        f = self.frame
        if name in f.consts:
            return f.consts[name]
        return self.gconsts.get(name)

    def resolve(self, lv):
        """The Cell (or Record/Array) an lvalue denotes."""
        st = self.lookup(lv.name, len(lv.idx) if lv.idx else None)
        if lv.idx:
            if not isinstance(st, Array):
                raise Unsupported('subscript on non-array')
            idx = [self.to_long(self.eval(e)) for e in lv.idx]
            st = st.element(idx)
        for fld in lv.fields:
            if not isinstance(st, Record):
                raise Unsupported('field of non-record')
            st = st.fields[fld]
        return st

    # -------------------------------------------------------- conversions
    def conv(self, tv, t):
        st, v = tv
        if st == t:
            return v
        if t == '$' or st == '$':
            raise Unsupported('string/number conversion')
        if t in '%&':
            if isinstance(v, float):
                if v != v or v in (float('inf'), float('-inf')):
                    raise QError('OVERFLOW')
                v = round(v)
            lim = 32768 if t == '%' else 2147483648
            if v < -lim or v >= lim:
                raise QError('OVERFLOW')
            return int(v)
        if t == '!':
            v = float(v)
            try:
                return f32(v)
            except OverflowError:
                raise QError('OVERFLOW')
        return float(v)

    def to_long(self, tv):
        return self.conv(tv, '&')

    def to_int(self, tv):
        return self.conv(tv, '%')

    def check(self, t, v):
        """Range-check an arithmetic result of type t."""
        if t == '%':
            if v < -32768 or v > 32767:
                raise QError('OVERFLOW')
            return v
        if t == '&':
            if v < -2147483648 or v > 2147483647:
                raise QError('OVERFLOW')
            return v
        if v != v:
            raise QError('OVERFLOW')
        if t == '!':
            if abs(v) == float('inf'):
                raise QError('OVERFLOW')
            try:
                return f32(v)
            except OverflowError:
                raise QError('OVERFLOW')
        if abs(v) == float('inf'):
            self.fired.add('double_overflow_inf')
            if 'double_overflow_inf' in self.dev:
                return v
            raise QError('OVERFLOW')
        return v

    # -------------------------------------------------------- expressions
    def eval(self, e):
        """-> (type, value)"""
        self.steps += 1
        if self.steps > self.max_steps:
            raise Budget()
        if isinstance(e, A.Num):
            return (e.t, e.v)
        if isinstance(e, A.Str):
            return ('$', e.v)
        if isinstance(e, A.Paren):
            return self.eval(e.e)
        if isinstance(e, A.ConstRef):
            c = self.find_const(e.name)
            if c is None:
                raise Unsupported('unknown const ' + e.name)
            return c
        if isinstance(e, A.LV):
            c = self.find_const(e.name) if not e.idx and not e.fields \
                else None
            if c is not None:
                return c
            st = self.resolve(e)
            if not isinstance(st, Cell):
                raise Unsupported('aggregate used as value')
            return (st.t, st.v)
        if isinstance(e, A.Un):
            return self.unary(e)
        if isinstance(e, A.Bin):
            return self.binary(e)
        if isinstance(e, A.BCall):
            return self.builtin(e)
        if isinstance(e, A.FCall):
            return self.call_function(e)
        raise Unsupported('expression %r' % (e,))

    def unary(self, e):
        t, v = self.eval(e.e)
        if e.op == 'pos':
            return (t, v)
        if e.op == 'neg':
            return (t, self.check(t, -v))
        if e.op == 'NOT':
            rt = '%' if t == '%' else '&'
            return (rt, ~self.conv((t, v), rt))
        raise Unsupported(e.op)

    def binary(self, e):
        op = e.op
        l = self.eval(e.l)
        r = self.eval(e.r)
        lt, rt = l[0], r[0]
        if lt == '$' or rt == '$':
            if lt != rt:
                raise Unsupported('mixed string/number')
            if op == '+':
                return ('$', l[1] + r[1])
            if op in ('=', '<>', '<', '>', '<=', '>='):
                return ('%', -1 if _rel(op, l[1], r[1]) else 0)
            raise Unsupported('string operator')
        if op in ('+', '-', '*'):
            t = A.wider(lt, rt)
            a, b = self.conv(l, t), self.conv(r, t)
            v = a + b if op == '+' else a - b if op == '-' else a * b
            return (t, self.check(t, v))
        if op == '/':
            t = '#' if '#' in (lt, rt) else '!'
            a, b = self.conv(l, t), self.conv(r, t)
            if b == 0:
                raise QError('DIV0')
            return (t, self.check(t, a / b))
        if op in ('\\', 'MOD'):
            t = '%' if lt == rt == '%' else '&'
            a, b = self.conv(l, t), self.conv(r, t)
            if b == 0:
                raise QError('DIV0')
            q = abs(a) // abs(b)
            if (a < 0) != (b < 0):
                q = -q
            if a % b != 0 and (a < 0) != (b < 0):
                self.fired.add('idiv_floor')
                if 'idiv_floor' in self.dev:
                    v = a // b if op == '\\' else a % b
                    return (t, self.check(t, v))
            elif op == 'MOD' and a % b != 0 and a < 0 and b < 0:
                pass
            if op == '\\':
                return (t, self.check(t, q))
            return (t, self.check(t, a - b * q))
        if op == '^':
            t = A.wider(lt, rt)
            a, b = self.conv(l, t), self.conv(r, t)
            if t in '%&':
                raise Unsupported('integer ^')
            if a == 0 and b < 0:
                raise QError('DIV0')
            if a < 0 and b != math.floor(b):
                raise QError('ILLEGAL_CALL')
            try:
                v = a ** b
            except OverflowError:
                raise QError('OVERFLOW')
            except ZeroDivisionError:
                raise QError('DIV0')
            return (t, self.check(t, v))
        if op in ('=', '<>', '<', '>', '<=', '>='):
            t = A.wider(lt, rt)
            a, b = self.conv(l, t), self.conv(r, t)
            return ('%', -1 if _rel(op, a, b) else 0)
        if op in ('AND', 'OR', 'XOR', 'EQV', 'IMP'):
            t = '%' if lt == rt == '%' else '&'
            a, b = self.conv(l, t), self.conv(r, t)
            if op == 'AND':
                v = a & b
            elif op == 'OR':
                v = a | b
            elif op == 'XOR':
                v = a ^ b
            elif op == 'EQV':
                v = ~(a ^ b)
            else:
                v = ~a | b
            return (t, v)
        raise Unsupported(op)

    def truth(self, tv):
        t, v = tv
        if t == '$':
            raise Unsupported('string condition')
        return v != 0

    # ----------------------------------------------------------- builtins
    def builtin(self, e):
        fn = e.fn
        a = e.args
        if fn == 'ABS':
            t, v = self.eval(a[0])
            return (t, self.check(t, abs(v)))
        if fn == 'INT':
            t, v = self.eval(a[0])
            if isinstance(v, float):
                if v != v or abs(v) == float('inf'):
                    raise QError('OVERFLOW')
                v = math.floor(v)
            return ('&', self.check('&', int(v)))
        if fn == 'CINT':
            return ('%', self.conv(self.eval(a[0]), '%'))
        if fn == 'CLNG':
            return ('&', self.conv(self.eval(a[0]), '&'))
        if fn == 'LEN':
            return ('&', len(self.eval(a[0])[1]))
        if fn == 'ASC':
            s = self.eval(a[0])[1]
            if not s:
                raise QError('ILLEGAL_CALL')
            return ('%', ord(s[0].encode('cp437', 'replace')))
        if fn == 'VAL':
            return ('#', val_of(self.eval(a[0])[1]))
        if fn == 'INSTR':
            if len(a) == 3:
                start = self.conv(self.eval(a[0]), '&')
                s1 = self.eval(a[1])[1]
                s2 = self.eval(a[2])[1]
                if start <= 0:
                    raise QError('ILLEGAL_CALL')
            else:
                start = 1
                s1 = self.eval(a[0])[1]
                s2 = self.eval(a[1])[1]
            if start > len(s1) or not s1:
                if not s1 and not s2 or (s1 and not s2):
                    self.fired.add('instr_empty')
                return ('&', 0)
            if not s2:
                return ('&', start)
            return ('&', s1.find(s2, start - 1) + 1)
        if fn == 'RND':
            if a:
                x = self.conv(self.eval(a[0]), '!')
            else:
                x = 1.0
            if x == 0:
                if self.last_rnd is None:
                    self.last_rnd = self.next_rnd()
            elif x < 0:
                v = self.rnd_seeded(x)
                self.events.append(('rnd_seeded', x, v))
                self.last_rnd = v
            else:
                self.last_rnd = self.next_rnd()
            return ('!', self.check('!', self.last_rnd))
        if fn == 'TIMER':
            lst = self.script.get('timer') or []
            v = lst[self.i_timer] if self.i_timer < len(lst) else \
                self.script.get('timer_default', 0.0)
            self.i_timer += 1
            self.events.append(('timer', v))
            return ('!', self.check('!', v))
        if fn == 'INKEY$':
            lst = self.script.get('inkey') or []
            v = lst[self.i_inkey] if self.i_inkey < len(lst) else ''
            self.i_inkey += 1
            self.events.append(('inkey', v))
            return ('$', v)
        if fn in ('LBOUND', 'UBOUND'):
            st = self.lookup(a[0].name)
            if not isinstance(st, Array):
                raise Unsupported('bound of non-array')
            d = 1
            if len(a) > 1:
                d = self.conv(self.eval(a[1]), '&')
            if d < 1 or d > len(st.dims):
                raise QError('SUBSCRIPT')
            return ('&', st.dims[d - 1][0 if fn == 'LBOUND' else 1])
        if fn in ('LCASE$', 'UCASE$', 'LTRIM$', 'RTRIM$'):
            s = self.eval(a[0])[1]
            if fn == 'LCASE$':
                s = ''.join(c.lower() if 'A' <= c <= 'Z' else c for c in s)
            elif fn == 'UCASE$':
                s = ''.join(c.upper() if 'a' <= c <= 'z' else c for c in s)
            elif fn == 'LTRIM$':
                s = s.lstrip(' ')
            else:
                s = s.rstrip(' ')
            return ('$', s)
        if fn in ('LEFT$', 'RIGHT$'):
            s = self.eval(a[0])[1]
            n = self.conv(self.eval(a[1]), '%')
            if n < 0:
                raise QError('ILLEGAL_CALL')
            if fn == 'LEFT$':
                return ('$', s[:n])
            if n == 0:
                if s:
                    self.fired.add('right_zero')
                    if 'right_zero' in self.dev:
                        return ('$', s)
                return ('$', '')
            return ('$', s[-n:] if n < len(s) else s)
        if fn == 'MID$':
            s = self.eval(a[0])[1]
            start = self.conv(self.eval(a[1]), '%')
            n = None
            if len(a) > 2:
                n = self.conv(self.eval(a[2]), '%')
            if start <= 0:
                raise QError('ILLEGAL_CALL')
            if n is not None and n < 0:
                raise QError('ILLEGAL_CALL')
            if n is None:
                return ('$', s[start - 1:])
            return ('$', s[start - 1:start - 1 + n])
        if fn == 'STR$':
            t, v = self.eval(a[0])
            if t in '%&':
                return ('$', (' ' if v >= 0 else '') + str(v))
            raise Unsupported('STR$ of a floating value')
        if fn == 'CHR$':
            n = self.conv(self.eval(a[0]), '%')
            if n < 0 or n > 255:
                raise QError('ILLEGAL_CALL')
            return ('$', bytes([n]).decode('cp437'))
        if fn == 'SPACE$':
            n = self.conv(self.eval(a[0]), '%')
            if n < 0:
                raise QError('ILLEGAL_CALL')
            return ('$', ' ' * n)
        if fn == 'STRING$':
            n = self.conv(self.eval(a[0]), '%')
            t, v = self.eval(a[1])
            if n < 0:
                raise QError('ILLEGAL_CALL')
            if t == '$':
                if not v:
                    raise QError('ILLEGAL_CALL')
                ch = v[0]
            else:
                code = self.conv((t, v), '%')
                if code < 0 or code > 255:
                    raise QError('ILLEGAL_CALL')
                ch = bytes([code]).decode('cp437')
            return ('$', ch * n)
        if fn == 'ERR':
            return ('%', self.err_code or 0)
        raise Unsupported('builtin ' + fn)

    def next_rnd(self):
        lst = self.script.get('rnd') or []
        v = lst[self.i_rnd] if self.i_rnd < len(lst) else \
            self.script.get('rnd_default', 0.5)
        self.i_rnd += 1
        self.events.append(('rnd_next', v))
        return v

    # ---------------------------------------------------------- procedures
    def bind_args(self, proc, args):
        """Evaluate arguments left to right -> list of storages."""
        out = []
        if len(args) != len(proc.params):
            raise Unsupported('argument count')
        for prm, arg in zip(proc.params, args):
            if isinstance(arg, A.ArrPass):
                st = self.lookup(arg.name)
                if not isinstance(st, Array):
                    raise Unsupported('array argument')
                out.append(st)
            elif isinstance(arg, A.LV) and self.find_const(arg.name) is None:
                st = self.resolve(arg)
                if isinstance(st, Cell):
                    if st.t != prm.t:
                        raise Unsupported('by-ref type mismatch')
                    self.used_features.add('byref')
                out.append(st)
            else:
                tv = self.eval(arg)
                c = Cell(prm.t)
                if prm.t == '$' or tv[0] == '$':
                    if prm.t != tv[0]:
                        raise Unsupported('argument type')
                    c.v = tv[1]
                else:
                    c.v = self.conv(tv, prm.t)
                out.append(c)
        return out

    def invoke(self, proc, args):
        if self.frame.depth > 40:
            raise Unsupported('recursion too deep')
        storages = self.bind_args(proc, args)
        fr = Frame(proc, self.frame.depth + 1)
        for prm, st in zip(proc.params, storages):
            fr.vars[prm.name] = st
        if proc.kind == 'function':
            fr.retval = Cell(proc.rt)
        saved = self.frame
        saved_stmt = self.cur_stmt
        self.frame = fr
        if fr.depth > 1 and proc is saved.proc:
            self.used_features.add('recursion')
        try:
            try:
                self.exec_body(proc.body)
            except _ExitProc:
                pass
            except _Jump:
                raise Unsupported('jump out of procedure')
        finally:
            self.frame = saved
        self.cur_stmt = saved_stmt
        if proc.kind == 'function':
            return (fr.retval.t, fr.retval.v)
        return None

    def call_function(self, e):
        proc = self.procs.get(e.name.rstrip('%&!#$'))
        if proc is None or proc.kind != 'function':
            raise Unsupported('unknown function ' + e.name)
        self.used_features.add('call')
        return self.invoke(proc, e.args)

    # ---------------------------------------------------------- statements
    def assign_cell(self, cell, tv):
        if not isinstance(cell, Cell):
            raise Unsupported('assignment to aggregate')
        if cell.t == '$' or tv[0] == '$':
            if cell.t != tv[0]:
                raise Unsupported('string/number assignment')
            cell.v = tv[1]
        else:
            if tv[0] != cell.t:
                self.used_features.add('implicit_conv')
            cell.v = self.conv(tv, cell.t)
        cell.assigned = True

    def exec_body(self, body, start=0):
        i = start
        n = len(body)
        while i < n:
            s = body[i]
            try:
                self.exec_stmt(s)
            except _Jump as j:
                k = _find_label(body, j.label)
                if k is None:
                    raise
                i = k
                continue
            except QError as err:
                # statement-level error handling (ON ERROR ...): only for
                # simple statements of the main program; an error raised
                # inside a called procedure surfaces at the calling
                # module-level statement
                if self.handler is None or self.in_handler or \
                        self.frame is not self.main:
                    raise
                if not s.simple:
                    raise Unsupported('error in a block header while a '
                                      'handler is armed')
                in_proc = err.stmt is not None and err.stmt is not s and \
                    getattr(err, 'depth', 0) > 0
                self.err_cls = err.cls
                self.err_code = ERR_CODE[err.cls]
                self.used_features.add('handled_error')
                if self.handler == 'next':
                    if in_proc:
                        raise Unsupported('RESUME NEXT for an error inside '
                                          'a procedure')
                    i += 1
                    continue
                action = self.run_handler()
                if in_proc:
                    raise Unsupported('RESUME for an error inside a '
                                      'procedure')
                if action:          # RESUME NEXT
                    i += 1
                continue
            i += 1

    def eval_header(self, e):
        """Evaluates the condition of a single-line IF or of LOOP WHILE /
        UNTIL under the statement-level error semantics: RESUME evaluates it
        again, RESUME NEXT leaves the statement (_SkipStmt)."""
        while True:
            try:
                return self.eval(e)
            except QError as err:
                if self.handler is None or self.in_handler or \
                        self.frame is not self.main or \
                        getattr(err, 'depth', 0) > 0:
                    raise
                self.err_cls = err.cls
                self.err_code = ERR_CODE[err.cls]
                self.used_features.add('handled_error')
                self.used_features.add('handled_error_in_header')
                if self.handler == 'next' or self.run_handler():
                    raise _SkipStmt()

    def run_handler(self):
        """Executes the handler until RESUME -> True for RESUME NEXT."""
        k = self.top_labels.get(self.handler)
        if k is None:
            raise Unsupported('handler label not at module level')
        self.in_handler = True
        saved = self.cur_stmt
        try:
            try:
                self.exec_body(self.top, k)
            except _Resume as r:
                self.cur_stmt = saved
                return r.next
            except QError:
                # an error inside the handler is fatal
                raise
        finally:
            self.in_handler = False
        raise _End()

    def exec_stmt(self, s):
        self.steps += 1
        if self.steps > self.max_steps:
            raise Budget()
        if s.simple and not isinstance(s, (A.LabelDef, A.Data, A.Rem,
                                           A.DefType, A.Const)):
            self.cur_stmt = s
            if self.trace_stmts:
                self.stmt_trace.append(s)
        m = getattr(self, 'x_' + type(s).__name__)
        try:
            m(s)
        except QError as err:
            if err.stmt is None:
                err.stmt = self.cur_stmt if s.simple else s
                err.depth = self.frame.depth
            raise

    def x_LabelDef(self, s):
        pass

    def x_Rem(self, s):
        pass

    def x_Data(self, s):
        pass

    def x_DefType(self, s):
        pass

    def x_TypeDef(self, s):
        pass

    def x_Proc(self, s):
        pass

    def x_Assign(self, s):
        tv = self.eval(s.e)
        try:
            cell = self.resolve(s.lv)
        except QError:
            # a bad subscript of the target AND a value that does not fit the
            # target's type: which of the two errors comes first is not
            # prescribed (qbee converts before it addresses the element)
            t = s.lv.t
            if t in ('%', '&', '!', '#') and tv[0] != '$':
                try:
                    self.conv(tv, t)
                except QError:
                    raise Unsupported('two faults in one assignment')
            raise
        self.assign_cell(cell, tv)

    def x_RetAssign(self, s):
        tv = self.eval(s.e)
        if self.frame.retval is None:
            raise Unsupported('return value outside function')
        self.assign_cell(self.frame.retval, tv)

    def x_Print(self, s):
        items = []
        if s.using is not None:
            items.append(('using', self.eval(s.using)[1]))
        for it in s.items:
            if it in (';', ','):
                items.append(('sep', it))
            else:
                t, v = self.eval(it)
                items.append(('v', t, v))
        self.cur_stmt = s
        self.events.append(('PRINT', items))
        self.print_stmts.append(s)

    def x_If(self, s):
        for cond, body in s.arms:
            self.cur_stmt = s
            if self.truth(self.eval(cond)):
                self.exec_body(body)
                return
        if s.else_body is not None:
            self.exec_body(s.else_body)

    def x_IfLine(self, s):
        self.cur_stmt = s
        try:
            c = self.eval_header(s.cond)
        except _SkipStmt:
            return
        if self.truth(c):
            self.exec_body(s.then)
        elif s.els is not None:
            self.exec_body(s.els)

    def x_For(self, s):
        self.cur_stmt = s
        cell = self.resolve(s.var)
        if not isinstance(cell, Cell) or cell.t == '$':
            raise Unsupported('FOR variable')
        t = cell.t
        # qbee evaluates STEP first; bounds generated here are free of side
        # effects, so the order is unobservable
        step = 1 if s.step is None else self.conv(self.eval(s.step), t)
        a = self.conv(self.eval(s.a), t)
        b = self.conv(self.eval(s.b), t)
        cell.v = a
        cell.assigned = True
        sgn = 1 if step > 0 else -1 if step < 0 else 0
        self.used_features.add('loop')
        iters = 0
        while True:
            if sgn >= 0 and cell.v > b:
                break
            if sgn < 0 and cell.v < b:
                break
            if sgn == 0:
                raise Unsupported('FOR with STEP 0')
            iters += 1
            if iters >= 2:
                self.used_features.add('loop2')
            try:
                self.exec_body(s.body)
            except _ExitLoop as x:
                if x.what != 'FOR':
                    raise
                break
            self.cur_stmt = s
            self.steps += 1
            if self.steps > self.max_steps:
                raise Budget()
            cell.v = self.check(t, cell.v + step)

    def x_While(self, s):
        iters = 0
        while True:
            self.cur_stmt = s
            if not self.truth(self.eval(s.cond)):
                break
            iters += 1
            if iters >= 2:
                self.used_features.add('loop2')
            self.exec_body(s.body)

    def x_Do(self, s):
        iters = 0
        try:
            while True:
                self.cur_stmt = s
                if s.kind == 'do_while' and not self.truth(self.eval(s.cond)):
                    break
                if s.kind == 'do_until' and self.truth(self.eval(s.cond)):
                    break
                iters += 1
                if iters >= 2:
                    self.used_features.add('loop2')
                self.exec_body(s.body)
                self.cur_stmt = s
                self.steps += 1
                if self.steps > self.max_steps:
                    raise Budget()
                if s.kind in ('loop_while', 'loop_until'):
                    try:
                        c = self.truth(self.eval_header(s.cond))
                    except _SkipStmt:
                        break
                    if c == (s.kind == 'loop_until'):
                        break
        except _ExitLoop as x:
            if x.what != 'DO':
                raise

    def x_Select(self, s):
        self.cur_stmt = s
        sel = self.eval(s.e)
        st_ = sel[0]
        for clauses, body in s.cases:
            hit = False
            for c in clauses:
                if c[0] == 'v':
                    v = self.case_val(c[1], st_)
                    if sel[1] == v:
                        hit = True
                elif c[0] == 'range':
                    lo = self.case_val(c[1], st_)
                    hi = self.case_val(c[2], st_)
                    if lo <= sel[1] <= hi:
                        hit = True
                else:
                    v = self.case_val(c[2], st_)
                    if _rel(c[1], sel[1], v):
                        hit = True
            if hit:
                self.exec_body(body)
                return
        if s.else_body is not None:
            self.exec_body(s.else_body)

    def case_val(self, e, t):
        tv = self.eval(e)
        if t == '$' or tv[0] == '$':
            if t != tv[0]:
                raise Unsupported('CASE type')
            return tv[1]
        return self.conv(tv, t)

    def x_Goto(self, s):
        self.used_features.add('goto')
        raise _Jump(s.target)

    def x_Gosub(self, s):
        if self.frame.proc is not None:
            raise Unsupported('GOSUB inside procedure')
        k = self.top_labels.get(s.target)
        if k is None:
            raise Unsupported('GOSUB to a nested label')
        self.used_features.add('gosub')
        saved = self.cur_stmt
        try:
            self.exec_body(self.top, k)
        except _Return:
            self.cur_stmt = saved
            return
        raise _End()

    def x_Return(self, s):
        raise _Return()

    def x_CallSub(self, s):
        proc = self.procs.get(s.name)
        if proc is None or proc.kind != 'sub':
            raise Unsupported('unknown SUB ' + s.name)
        self.used_features.add('call')
        self.invoke(proc, s.args)

    def x_Dim(self, s):
        for d in s.decls:
            if d.dims is not None:
                dims = []
                for lo, hi in d.dims:
                    lov = 0 if lo is None else self.to_long(self.eval(lo))
                    hiv = self.to_long(self.eval(hi))
                    if lov > hiv:
                        raise QError('SUBSCRIPT')
                    dims.append((lov, hiv))
                st = Array(self, d.t, dims)
                self.used_features.add('array')
            else:
                st = self.new_storage(d.t)
            if A.is_rec(d.t):
                self.used_features.add('record')
            if s.kind == 'shared':
                self.shared[d.name] = st
                self.main.vars[d.name] = st
            elif s.kind == 'static' or (
                    self.frame.proc is not None and self.frame.proc.static):
                sv = self.statics.setdefault(self.frame.proc.name, {})
                if d.name not in sv:
                    sv[d.name] = st
            else:
                if d.name in self.frame.vars and self.frame.proc is None:
                    raise Unsupported('DIM executed twice')
                self.frame.vars[d.name] = st

    def x_Const(self, s):
        try:
            tv = self.eval(s.e)
        except QError:
            # QBASIC rejects such a CONST at compile time
            raise Unsupported('CONST expression fails to evaluate')
        t = self.name_type(s.name) if s.name[-1] in '%&!#$' else tv[0]
        if t != tv[0]:
            if t == '$' or tv[0] == '$':
                raise Unsupported('const type')
            tv = (t, self.conv(tv, t))
        if self.frame.proc is None:
            self.gconsts[s.name] = tv
        else:
            self.frame.consts[s.name] = tv

    def x_Read(self, s):
        for lv in s.lvs:
            self.cur_stmt = s
            if self.data_pos >= len(self.data):
                raise QError('OUT_OF_DATA')
            item = self.data[self.data_pos]
            # the item is fetched and converted before the target's
            # subscripts are evaluated (order unspecified in QBASIC; this is
            # the order qbee uses, so no alarm is raised about it)
            t = lv.t
            if t == '$':
                v = '' if item is None else item[1]
            else:
                v = read_number(item, t)
            self.data_pos += 1
            self.events.append(('READ', t, v))
            cell = self.resolve_for_read(lv)
            if cell.t != t:
                raise Unsupported('READ target type')
            cell.v = v
            cell.assigned = True

    def resolve_for_read(self, lv):
        # qbee reads the item first and evaluates subscripts afterwards; with
        # side-effect-free subscripts the order is unobservable
        cell = self.resolve(lv)
        if not isinstance(cell, Cell):
            raise Unsupported('READ into aggregate')
        return cell

    def x_Restore(self, s):
        if s.target is None:
            self.data_pos = 0
        else:
            if s.target not in self.label_data_pos:
                raise Unsupported('RESTORE to unknown label')
            self.data_pos = self.label_data_pos[s.target]

    def x_Input(self, s):
        cells = []
        question = s.prompt is None or s.sep == ';'
        prompt = (s.prompt or '') + ('? ' if question else '')
        while True:
            self.cur_stmt = s
            if prompt:
                self.events.append(('TEXT', prompt))
            lst = self.script.get('inputs') or []
            if self.i_input >= len(lst):
                raise InputExhausted()
            line = lst[self.i_input]
            self.i_input += 1
            self.events.append(('INPUT', bool(s.sameline), line))
            types = [lv.t for lv in s.lvs]
            vals = parse_input_line(line, types)
            if vals is not None:
                break
            self.events.append(('TEXT', 'Redo from start\r\n'))
        # qbee stores right to left; targets generated here are distinct
        # locations with side-effect-free subscripts, so order is unobservable
        for lv, v in zip(s.lvs, vals):
            cell = self.resolve(lv)
            if not isinstance(cell, Cell):
                raise Unsupported('INPUT into aggregate')
            cell.v = v
            cell.assigned = True

    def x_OnError(self, s):
        if self.in_handler:
            raise Unsupported('ON ERROR inside a handler')
        if self.frame is not self.main:
            raise Unsupported('ON ERROR inside a procedure')
        self.handler = None if s.target == 0 else s.target
        self.used_features.add('onerror')

    def x_Resume(self, s):
        if not self.in_handler:
            raise Unsupported('RESUME outside handler')
        raise _Resume(s.next)

    def x_End(self, s):
        raise _End()

    def x_Exit(self, s):
        if s.what in ('FOR', 'DO'):
            raise _ExitLoop(s.what)
        raise _ExitProc()

    def x_Dev(self, s):
        k = s.kind
        ev = [None if a is None else self.eval(a) for a in s.args]
        ci = lambda tv: -1 if tv is None else self.conv(tv, '%')
        self.cur_stmt = s
        if k == 'CLS':
            self.events.append(('cls',))
        elif k == 'BEEP':
            self.events.append(('beep',))
        elif k == 'COLOR':
            ev = ev + [None] * (3 - len(ev))
            self.events.append(('color', ci(ev[0]), ci(ev[1]), ci(ev[2])))
        elif k == 'LOCATE':
            ev = ev + [None] * (3 - len(ev))
            row, col, cur = ci(ev[0]), ci(ev[1]), ci(ev[2])
            if row >= 1:
                row -= 1
            if col >= 1:
                col -= 1
            self.events.append(('locate', row, col, cur, -1, -1))
        elif k == 'SOUND':
            f = self.conv(ev[0], '%')
            d = self.conv(ev[1], '&')
            self.events.append(('sound', f, d))
        elif k == 'PLAY':
            self.events.append(('play', ev[0][1]))
        elif k == 'POKE':
            addr = self.conv(ev[0], '&')
            v = self.conv(ev[1], '%')
            if v < 0 or v > 255:
                raise QError('DEVICE')
            self.events.append(('poke', addr, v))
        elif k == 'DEF SEG':
            if not ev:
                self.events.append(('set_default_segment',))
            else:
                seg = self.conv(ev[0], '&')
                if seg < 0 or seg > 65535:
                    raise QError('DEVICE')
                self.events.append(('set_segment', seg))
        elif k == 'RANDOMIZE':
            self.events.append(('rnd_seed', self.conv(ev[0], '!')))
        elif k == 'SCREEN':
            self.events.append(('set_mode', ci(ev[0]), -1, -1, -1))
        elif k == 'WIDTH':
            ev = ev + [None] * (2 - len(ev))
            self.events.append(('width', ci(ev[0]), ci(ev[1])))
        elif k == 'VIEW PRINT':
            if ev:
                self.events.append(('view_print', ci(ev[0]), ci(ev[1])))
            else:
                self.events.append(('view_print', -1, -1))
        else:
            raise Unsupported('device statement ' + k)

    # ----------------------------------------------------------------- run
    def run(self):
        """-> (events, outcome).  outcome: ('end', how) | ('error', cls,
        stmt) | ('unsupported', why) | ('budget',) | ('input_exhausted',)"""
        try:
            try:
                self.exec_body(self.top)
                outcome = ('end', 'fell_off')
            except _End:
                outcome = ('end', 'end')
            except _Return:
                raise Unsupported('RETURN without GOSUB')
            except _Jump as j:
                raise Unsupported('jump to a label in another block')
            except (_ExitLoop, _ExitProc, _Resume):
                raise Unsupported('misplaced EXIT/RESUME')
        except QError as err:
            outcome = ('error', err.cls, err.stmt)
        except Unsupported as u:
            outcome = ('unsupported', str(u))
        except Budget:
            outcome = ('budget',)
        except InputExhausted:
            outcome = ('input_exhausted',)
        except RecursionError:
            outcome = ('unsupported', 'host recursion limit')
        return self.events, outcome


def _rel(op, a, b):
    if op == '=':
        return a == b
    if op in ('<>', '><'):
        return a != b
    if op == '<':
        return a < b
    if op == '>':
        return a > b
    if op in ('<=', '=<'):
        return a <= b
    return a >= b


def _find_label(body, label):
    for k, s in enumerate(body):
        if isinstance(s, A.LabelDef) and s.name == label:
            return k
    return None


# ------------------------------------------------------------------ DATA

def tokenize_data(raw):
    """Reference DATA tokenizer (property C15): items separated at commas
    outside quotes; unquoted items trimmed; quoted kept verbatim; an empty
    item is None.  Returns a list of None | ('u', text) | ('q', text)."""
    items = []
    i = 0
    n = len(raw)
    while True:
        # skip blanks
        while i < n and raw[i] in ' \t':
            i += 1
        if i < n and raw[i] == '"':
            j = raw.find('"', i + 1)
            if j < 0:
                items.append(('q', raw[i + 1:]))
                i = n
            else:
                items.append(('q', raw[i + 1:j]))
                i = j + 1
            while i < n and raw[i] in ' \t':
                i += 1
            if i < n and raw[i] != ',':
                raise Unsupported('text after closing quote in DATA')
        else:
            j = i
            while j < n and raw[j] != ',':
                j += 1
            txt = raw[i:j].strip(' \t')
            items.append(('u', txt) if txt else None)
            i = j
        if i >= n:
            break
        i += 1      # the comma
        if i >= n:
            items.append(None)
            break
    return items


_NUM_CHARS = set('0123456789+-.eEdD')


def numeral_value(txt):
    """Value of a well-formed decimal numeral, or None."""
    import re
    m = re.fullmatch(
        r'[+-]?(\d+(\.\d*)?|\.\d+)([eEdD][+-]?\d+)?', txt)
    if not m:
        return None
    return float(txt.replace('d', 'e').replace('D', 'e'))


def read_number(item, t):
    if item is None:
        return 0 if t in '%&' else 0.0
    txt = item[1]
    import re
    if t in '%&':
        if not re.fullmatch(r'[+-]?\d+', txt.strip()):
            if numeral_value(txt.strip()) is not None:
                raise Unsupported('fractional DATA for an integer target')
            raise QError('DATA_TYPE')
        v = int(txt)
        lim = 32768 if t == '%' else 2147483648
        if v < -lim or v >= lim:
            raise QError('OVERFLOW')
        return v
    v = numeral_value(txt.strip())
    if v is None:
        raise QError('DATA_TYPE')
    if t == '!':
        try:
            return f32(v)
        except OverflowError:
            raise QError('OVERFLOW')
    return v


def parse_input_line(line, types):
    """Values for an INPUT response line, or None if it must be rejected."""
    import re
    fields = [f.strip(' ') for f in line.split(',')]
    if len(fields) != len(types):
        return None
    out = []
    for f, t in zip(fields, types):
        if t == '$':
            out.append(f)
            continue
        if t in '%&':
            if not re.fullmatch(r'[+-]?\d+', f):
                if numeral_value(f) is not None:
                    raise Unsupported('fractional INPUT for integer target')
                return None
            v = int(f)
            lim = 32768 if t == '%' else 2147483648
            if v < -lim or v >= lim:
                return None
            out.append(v)
            continue
        v = numeral_value(f)
        if v is None or v != v or abs(v) == float('inf'):
            return None
        if t == '!':
            try:
                v = f32(v)
            except OverflowError:
                return None
            if abs(v) == float('inf'):
                return None
        out.append(v)
    return out


def val_of(s):
    import re
    s = s.lstrip(' \t')
    m = re.match(r'&[Hh]([0-9a-fA-F]+)', s)
    if m:
        return float(int(m.group(1), 16))
    m = re.match(r'&[Oo]([0-7]+)', s)
    if m:
        return float(int(m.group(1), 8))
    m = re.match(r'[+-]?(\d+(\.\d*)?|\.\d+)([eEdD][+-]?\d+)?', s)
    if not m:
        return 0.0
    return float(m.group(0).replace('d', 'e').replace('D', 'e'))
