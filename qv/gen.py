"""G - typed program generator (Hypothesis strategies -> AST).

Constructive: every drawn program is well-typed and terminating by
construction (loop trip counts are generator-known, counters are reserved,
backward GOTO only in counted patterns, recursion depth explicit)."""
import struct

import copy
from hypothesis import strategies as st

from . import ast as A
from .render import single_text, double_text, f32, Style

_KEYWORDS = None


def keywords():
    global _KEYWORDS
    if _KEYWORDS is None:
        from qbee import grammar
        kws = set()
        for name, val in vars(grammar).items():
            if name.endswith('_kw'):
                kws.add(str(val.match).lower() if hasattr(val, 'match')
                        else name[:-3])
        _KEYWORDS = kws
    return _KEYWORDS


def _base_names():
    out = []
    letters = 'abcdefghijklmnopqrstuvwxyz'
    for a in letters:
        out.append(a)
    for a in letters:
        for b in 'aeiou12xk':
            out.append(a + b)
    for a in 'bcdfgjklmnpqrtvwz':
        for b in ('ab', 'ix', 'oz', 'u7', 'ek9'):
            out.append(a + b)
    # identifiers that merely begin with a keyword
    for k in ('rem', 'end', 'for', 'if', 'to', 'next', 'or', 'and', 'not',
              'mod', 'let', 'dim', 'call', 'sub', 'as', 'then', 'else',
              'goto', 'data', 'print', 'input', 'do', 'loop', 'case', 'on',
              'read', 'step', 'type', 'len', 'int', 'abs', 'str', 'val'):
        out.append(k + 'v')
        out.append(k + 'q2')
    kws = keywords()
    bases = {k.rstrip('$') for k in kws}
    return [n for n in out if n not in bases]


class Params:
    """Size bounds and feature switches of one campaign."""

    def __init__(self, **kw):
        self.max_stmts = 18
        self.max_depth = 2          # block nesting
        self.expr_depth = 3
        self.max_procs = 2
        self.max_iter = 3
        self.features = {
            'records': True, 'arrays': True, 'procs': True, 'gosub': True,
            'goto': True, 'data': True, 'input': True, 'devices': True,
            'deftype': True, 'select': True, 'strings': True,
            'const': True, 'print_using': False, 'static': True,
            'shared': True, 'recursion': True,
        }
        self.edgy = 0.15            # probability of boundary constants
        self.avoid = set()          # named known-finding avoid switches
        self.unique_literals = False
        self.empty_blocks = 0.1
        self.const_bias = 0.0       # bias toward constant sub-expressions
        self.nonascii = False       # non-ASCII characters in string literals
        self.error_rate = 0.15      # how often error-prone shapes are kept
        self.call_bias = 0.0        # extra probability of a procedure call
        self.min_procs = 0
        self.probe_rate = 0.0       # debugger probes: PRINT "@@"; <exprs>
        self.dead_code = 0.0        # unreachable statements after END
        self.nested_exit = 0.3      # EXIT FOR taken inside a nested FOR
        self.record_params = 0.2    # procedure parameters of a record type
        self.mixed_case_types = False   # CASE values of other numeric types
        for k, v in kw.items():
            if k == 'features':
                self.features.update(v)
            else:
                setattr(self, k, v)


class Var:
    __slots__ = ('name', 't', 'dims', 'kind', 'reserved', 'dynamic',
                 'assigned', 'rng')

    def __init__(self, name, t, dims=None, kind='local', reserved=False,
                 dynamic=False):
        self.name, self.t, self.dims, self.kind = name, t, dims, kind
        self.reserved = reserved
        self.dynamic = dynamic
        self.assigned = False
        self.rng = None          # known value range for loop variables


class Scope:
    def __init__(self, kind, name=None, parent=None):
        self.kind = kind          # main | sub | function
        self.name = name
        self.vars = {}            # name -> Var
        self.consts = {}          # name -> (t, expr)
        self.parent = parent      # main scope for procedures
        self.labels = []
        self.static = False


class ProcSig:
    def __init__(self, kind, name, params, rt, static, recursive):
        self.kind, self.name, self.params = kind, name, params
        self.rt, self.static, self.recursive = rt, static, recursive


INT_EDGES = [32767, 32766, 16384, 255, 256, 1000, 181, 182]
LONG_EDGES = [32768, 65535, 65536, 2147483647, 2147483646, 100000, 46341,
              46340, 1073741824]
SINGLE_EDGES = [3.4028234663852886e+38, 1.1754943508222875e-38, 16777216.0,
                16777217.0, 0.1, 0.5, 1.5, 2.5, 3.5, 32767.5, 32767.49,
                2147483648.0, 1e10, 1e-10, 8388608.5, 0.3333333432674408]
DOUBLE_EDGES = [1.7976931348623157e+308, 2.2250738585072014e-308,
                9007199254740993.0, 0.1, 0.5, 1.5, 2.5, 32767.5, 32768.5,
                2147483647.5, 2147483648.5, 1e100, 1e-100,
                3.4028235677973366e+38, 4e38, 1e-320]

BUILTIN_STR1 = ['LCASE$', 'UCASE$', 'LTRIM$', 'RTRIM$']


class Gen:
    def __init__(self, draw, params):
        self.draw = draw
        self.p = params
        self.names = _base_names()
        self.used_bases = set()
        self.deftype = {}           # letter -> type
        self.types = {}             # record name -> [(field, t)]
        self.procs = []             # ProcSig in definition order
        self.main = Scope('main')
        self.scope = self.main
        self.shared = {}            # name -> Var (DIM SHARED)
        self.gconsts = {}           # global CONST name -> (t, expr)
        self.label_n = 0
        self.lit_n = 0
        self.stmt_budget = params.max_stmts
        self.gosubs = []            # (label, body)
        self.data_items = []        # flat list of (kind, text) in order
        self.data_stmts = []
        self.counter_n = 0
        self.n_inputs = 0
        self.input_types = []       # list of list-of-types per INPUT stmt
        self.in_proc_idx = None
        self.loop_depth = 0
        self.straight = True        # in straight-line top-level routine code
        self.for_depth = 0
        self.do_depth = 0
        self.stats = {}

    # ------------------------------------------------------------- drawing
    def i(self, lo, hi):
        return self.draw(st.integers(lo, hi))

    def chance(self, p):
        if p <= 0:
            return False
        if p >= 1:
            return True
        return self.draw(st.floats(0, 1, allow_nan=False)) < p

    def pick(self, seq):
        seq = list(seq)
        return seq[self.i(0, len(seq) - 1)]

    def feat(self, f):
        return self.p.features.get(f, False)

    def avoid(self, a):
        return a in self.p.avoid

    def note(self, k):
        self.stats[k] = self.stats.get(k, 0) + 1

    # --------------------------------------------------------------- names
    def fresh_base(self):
        for _ in range(50):
            n = self.names[self.i(0, len(self.names) - 1)]
            if n not in self.used_bases:
                self.used_bases.add(n)
                return n
        k = 0
        while True:
            n = 'v%dq' % k
            if n not in self.used_bases:
                self.used_bases.add(n)
                return n
            k += 1

    def default_type_of(self, base):
        return self.deftype.get(base[0], '!')

    def fresh_name(self, t, allow_plain=True):
        """A new variable name whose implicit type is t."""
        base = self.fresh_base()
        if A.is_rec(t):
            return base
        if allow_plain and self.default_type_of(base) == t and \
                self.chance(0.5):
            return base
        return base + t

    def new_label(self):
        self.label_n += 1
        if self.chance(0.3):
            return 100 * self.label_n + 7      # line number
        return 'lab%dz' % self.label_n

    # ------------------------------------------------------------ literals
    def lit(self, t, small=True):
        """A literal expression of exactly type t (non-negative Num possibly
        wrapped in unary minus)."""
        neg = self.chance(0.2)
        if t == '%':
            if not small and self.chance(0.5):
                v = self.pick(INT_EDGES)
            else:
                v = self.i(0, 12)
            form = self.i(0, 9)
            if form == 0:
                text = str(v) + '%'
            elif form == 1:
                text = '&H%X' % v
            elif form == 2:
                text = '&O%o' % v
            else:
                text = str(v)
            e = A.Num('%', v, text)
        elif t == '&':
            if not small and self.chance(0.6):
                v = self.pick(LONG_EDGES)
            else:
                v = self.i(0, 100000)
            if v > 32767 and self.chance(0.6):
                text = str(v)
            elif v > 32767 and self.chance(0.3):
                text = '&H%X' % v
            else:
                text = str(v) + '&'
            e = A.Num('&', v, text)
        elif t == '!':
            if not small and self.chance(0.6):
                v = f32(self.pick(SINGLE_EDGES))
            else:
                v = f32(self.i(0, 400) / self.pick([1, 2, 4, 8, 10, 100]))
            e = A.Num('!', v, single_text(v))
        elif t == '#':
            if not small and self.chance(0.6):
                v = float(self.pick(DOUBLE_EDGES))
            else:
                v = self.i(0, 4000) / self.pick([1, 2, 4, 8, 10, 1000])
            e = A.Num('#', v, double_text(v))
        else:
            return self.strlit()
        if neg:
            return A.Un('neg', e, t)
        return e

    def strlit(self):
        if self.p.unique_literals:
            self.lit_n += 1
            return A.Str('u%dq' % self.lit_n)
        n = self.i(0, 6)
        alphabet = 'abXY z09,.;-'
        if self.p.nonascii and self.chance(0.25):
            # printable cp437 beyond ASCII (as decoded characters)
            alphabet += bytes(range(0x80, 0x100)).decode('cp437') + '#%'
        s = ''.join(alphabet[self.i(0, len(alphabet) - 1)] for _ in range(n))
        return A.Str(s)

    # ----------------------------------------------------------- variables
    def visible_vars(self):
        """All variables visible in the current scope (name -> Var)."""
        out = {}
        if self.scope is not self.main:
            out.update(self.shared)
        out.update(self.scope.vars)
        return out

    def visible_consts(self):
        out = dict(self.gconsts)
        out.update(self.scope.consts)
        return out

    def declare(self, var):
        self.scope.vars[var.name] = var
        return var

    def new_scalar(self, t, reserved=False):
        name = self.fresh_name(t)
        kind = 'static' if self.scope.static else 'local'
        return self.declare(Var(name, t, None, kind, reserved))

    def rec_leaves(self, tname, prefix=()):
        """All (field path, scalar type) leaves of a record type."""
        out = []
        for f, ft in self.types[tname[2:]]:
            if A.is_rec(ft):
                out.extend(self.rec_leaves(ft, prefix + (f,)))
            else:
                out.append((prefix + (f,), ft))
        return out

    def index_expr(self, lo, hi):
        """A subscript expression for a dimension lo..hi; mostly in range."""
        r = self.i(0, 9)
        if r >= 8 and not self.chance(self.p.error_rate):
            r = 0
        if r <= 5:
            return self.int_const_expr(self.i(lo, hi))
        if r <= 7:
            # a loop variable whose known range lies inside lo..hi
            cands = [v for v in self.visible_vars().values()
                     if v.rng is not None and v.dims is None and
                     lo <= v.rng[0] and v.rng[1] <= hi and v.t in '%&']
            if cands:
                v = self.pick(cands)
                return A.LV(v.name, t=v.t)
            return self.int_const_expr(self.i(lo, hi))
        if r == 8:
            e = self.num_expr(1, want_int=True)
            return e
        return self.int_const_expr(self.i(lo - 1, hi + 1))

    def int_const_expr(self, v):
        if v < 0:
            return A.Un('neg', A.Num('%', -v, str(-v)), '%')
        return A.Num('%', v, str(v))

    def lvalue(self, want, for_write=False, allow_reserved=False):
        """An lvalue of scalar type `want` ('num' for any numeric, or a type
        char).  Returns None if none is available."""
        cands = []
        for v in self.visible_vars().values():
            if v.reserved and (for_write or not allow_reserved):
                if for_write:
                    continue
            if A.is_rec(v.t):
                for path, ft in self.rec_leaves(v.t):
                    if self.match(ft, want):
                        cands.append((v, path, ft))
            elif self.match(v.t, want):
                cands.append((v, (), v.t))
        if not cands:
            return None
        v, path, ft = self.pick(cands)
        idx = []
        if v.kind == 'param_array':
            arr = A.LV(v.name, [], [], None)
            idx = [A.BCall(self.pick(['LBOUND', 'UBOUND']), [arr], '&')]
            self.note('array_param_access')
        elif v.dims is not None:
            idx = [self.index_expr(lo, hi) for lo, hi in v.dims]
            self.note('array_access')
        if path:
            self.note('field_access')
        return A.LV(v.name, idx, list(path), ft)

    @staticmethod
    def match(t, want):
        if want == 'num':
            return t in A.NUMERIC
        if want == 'any':
            return True
        return t == want

    def target(self, want):
        """An assignment target: an existing lvalue or a fresh variable."""
        if self.chance(0.6):
            lv = self.lvalue(want, for_write=True)
            if lv is not None:
                return lv
        t = want
        if want == 'num':
            t = self.pick('%%&!#')
        elif want == 'any':
            t = self.pick('%%&!#$')
        if self.feat('arrays') and self.straight and self.chance(0.08) and \
                not self.avoid('implicit_array'):
            # implicit array 0..10
            name = self.fresh_name(t)
            kind = 'static' if self.scope.static else 'local'
            v = self.declare(Var(name, t, [(0, 10)], kind))
            self.note('implicit_array')
            return A.LV(v.name, [self.index_expr(0, 10)], [], t)
        if self.scope is not self.main and self.chance(0.2):
            # shadowing: an undeclared name in a procedure that the module
            # level declares with DIM ... AS (not SHARED) is a fresh local of
            # the default type
            cands = [v.name for v in self.main.vars.values()
                     if v.kind == 'local' and v.name[-1] not in '%&!#$' and
                     v.name not in self.scope.vars and
                     v.name not in self.shared and
                     self.match(self.default_type_of(v.name), want)]
            if cands:
                name = self.pick(cands)
                tt = self.default_type_of(name)
                kind = 'static' if self.scope.static else 'local'
                self.declare(Var(name, tt, None, kind))
                self.note('shadow_module_name')
                return A.LV(name, [], [], tt)
        v = self.new_scalar(t)
        return A.LV(v.name, [], [], t)

    # --------------------------------------------------------- expressions
    def num_type(self):
        return self.pick('%%%&!!#')

    def num_expr(self, depth, want_int=False, t=None):
        """A numeric expression (of type t if given and reachable)."""
        if t is None:
            t = self.pick('%&') if want_int else self.num_type()
        if depth <= 0:
            return self.num_atom(t)
        r = self.i(0, 19)
        if r <= 3:
            return self.num_atom(t)
        if r <= 9:
            return self.arith(depth, t)
        if r == 10:
            return self.relation(depth)
        if r == 11:
            return self.logical(depth)
        if r == 12:
            e = self.num_expr(depth - 1, t=t)
            return A.Un(self.pick(['neg', 'neg', 'pos']), e, e.t)
        if r == 13:
            e = self.num_expr(depth - 1, t=self.pick('%&!#'))
            return A.Un('NOT', e, '%' if e.t == '%' else '&')
        if r <= 15:
            return self.num_builtin(depth, t)
        if r == 16:
            f = self.func_call(depth, numeric=True)
            if f is not None:
                return f
            return self.num_atom(t)
        if r == 17:
            return A.Paren(self.num_expr(depth - 1, t=t))
        return self.arith(depth, t)

    def num_atom(self, t):
        r = self.i(0, 9)
        if r <= 4:
            lv = self.lvalue(t if self.chance(0.6) else 'num',
                             allow_reserved=True)
            if lv is not None:
                return lv
        if r == 5:
            cs = [(n, c) for n, c in self.visible_consts().items()
                  if c[0] in A.NUMERIC]
            if cs:
                n, c = self.pick(cs)
                return A.ConstRef(n, c[0])
        if r == 6 and self.chance(0.3):
            v = self.new_scalar(t)     # read of a never-assigned variable
            self.note('read_unassigned')
            return A.LV(v.name, [], [], t)
        return self.lit(t, small=not self.chance(self.p.edgy))

    def arith(self, depth, t):
        op = self.pick(['+', '+', '-', '-', '*', '*', '/', '\\', 'MOD', '^'])
        if op in ('+', '-', '*'):
            # result type t: at least one operand of type t, other narrower
            other = self.pick([x for x in A.NUMERIC
                               if A.RANK[x] <= A.RANK[t]])
            l, r = self.num_expr(depth - 1, t=t), \
                self.num_expr(depth - 1, t=other)
            if self.chance(0.5):
                l, r = r, l
            return A.Bin(op, l, r, A.wider(l.t, r.t))
        if op == '/':
            lt = self.pick('%!#')
            rt = self.pick('%!#')
            l = self.num_expr(depth - 1, t=lt)
            r = self.nonzero(self.num_expr(depth - 1, t=rt))
            if '&' in (l.t, r.t):
                # outside the agreed subset (SINGLE here, DOUBLE in QBASIC)
                return A.Bin('+', l, r, A.wider(l.t, r.t))
            rt2 = '#' if '#' in (l.t, r.t) else '!'
            return A.Bin('/', l, r, rt2)
        if op in ('\\', 'MOD'):
            l = self.num_expr(depth - 1)
            r = self.nonzero(self.num_expr(depth - 1))
            if self.avoid('idiv_neg'):
                l, r = self.nonneg(l), self.nonneg(r)
            rt2 = '%' if l.t == r.t == '%' else '&'
            return A.Bin(op, l, r, rt2)
        # '^': at least one floating operand, no LONG (agreed subset)
        lt = self.pick('%!#')
        rt = self.pick('!#') if lt == '%' else self.pick('%!#')
        l = self.num_expr(depth - 1, t=lt)
        r = self.num_expr(depth - 1, t=rt)
        if '&' in (l.t, r.t) or (l.t == '%' and r.t == '%'):
            return A.Bin('*', l, r, A.wider(l.t, r.t))
        if self.avoid('exp_domain'):
            l = self.positive(l)
            r = self.small_exp(r)
        return A.Bin('^', l, r, A.wider(l.t, r.t))

    def nonzero(self, e):
        """Mostly make a divisor non-zero (division by zero stays possible)."""
        if not self.chance(0.15 * self.p.error_rate):
            if isinstance(e, A.Num) and e.v == 0:
                return A.Num(e.t, 1 if e.t in '%&' else 1.0,
                             {'%': '1', '&': '1&', '!': '1!',
                              '#': '1#'}[e.t])
            if not isinstance(e, A.Num):
                one = A.Num(e.t, 1 if e.t in '%&' else 1.0,
                            {'%': '1', '&': '1&', '!': '1!', '#': '1#'}[e.t])
                sq = A.Bin('*', A.Paren(e) if not self.is_atom(e) else e,
                           A.Paren(e) if not self.is_atom(e) else e, e.t)
                if self.has_call(e):
                    return e
                return A.Paren(A.Bin('+', sq, one, e.t))
        return e

    def nonneg(self, e):
        if isinstance(e, A.Num):
            return e
        return A.BCall('ABS', [e], e.t)

    def positive(self, e):
        if isinstance(e, A.Num) and e.v > 0:
            return e
        one = A.Num(e.t, 1 if e.t in '%&' else 1.0,
                    {'%': '1', '&': '1&', '!': '1!', '#': '1#'}[e.t])
        return A.Paren(A.Bin('+', A.BCall('ABS', [e], e.t), one, e.t))

    def small_exp(self, e):
        if isinstance(e, A.Num) and abs(e.v) <= 8:
            return e
        v = self.i(0, 4)
        if e.t == '%':
            return A.Num('%', v, str(v))
        return self.mklit(e.t, v / 2.0)

    def mklit(self, t, v):
        if t == '%':
            v = int(v)
            return A.Num('%', v, str(v))
        if t == '&':
            v = int(v)
            return A.Num('&', v, str(v) + '&' if v <= 32767 else str(v))
        if t == '!':
            v = f32(v)
            return A.Num('!', v, single_text(v))
        return A.Num('#', float(v), double_text(v))

    @staticmethod
    def is_atom(e):
        return isinstance(e, (A.Num, A.LV, A.ConstRef, A.Paren, A.BCall,
                              A.FCall))

    def has_call(self, e):
        if isinstance(e, (A.FCall,)):
            return True
        if isinstance(e, A.BCall):
            return e.fn in ('RND', 'INKEY$', 'TIMER') or \
                any(self.has_call(a) for a in e.args)
        if isinstance(e, A.Bin):
            return self.has_call(e.l) or self.has_call(e.r)
        if isinstance(e, (A.Un, A.Paren)):
            return self.has_call(e.e)
        if isinstance(e, A.LV):
            return any(self.has_call(x) for x in e.idx)
        return False

    def relation(self, depth):
        op = self.pick(['=', '<>', '<', '>', '<=', '>='])
        if self.feat('strings') and self.chance(0.25):
            l, r = self.str_expr(depth - 1), self.str_expr(depth - 1)
        else:
            l, r = self.num_expr(depth - 1), self.num_expr(depth - 1)
        return A.Bin(op, l, r, '%')

    def logical(self, depth):
        op = self.pick(['AND', 'OR', 'XOR', 'EQV', 'IMP'])
        l, r = self.num_expr(depth - 1), self.num_expr(depth - 1)
        return A.Bin(op, l, r, '%' if l.t == r.t == '%' else '&')

    def cond(self, depth):
        """A condition: usually a relation, sometimes any numeric value."""
        r = self.i(0, 9)
        if r <= 5:
            return self.relation(depth)
        if r <= 7:
            return A.Bin(self.pick(['AND', 'OR']), self.relation(depth - 1),
                         self.relation(depth - 1), '%')
        if r == 8:
            return A.Un('NOT', self.relation(depth - 1), '%')
        return self.num_expr(depth)

    def num_builtin(self, depth, t):
        fn = self.pick(['ABS', 'INT', 'CINT', 'CLNG', 'LEN', 'ASC', 'VAL',
                        'INSTR', 'RND', 'TIMER', 'LBOUND', 'UBOUND', 'ABS',
                        'LEN', 'INT'])
        if fn == 'ABS':
            e = self.num_expr(depth - 1, t=t)
            return A.BCall('ABS', [e], e.t)
        if fn == 'INT':
            e = self.num_expr(depth - 1, t=self.pick('!#%'))
            return A.BCall('INT', [e], '&')
        if fn in ('CINT', 'CLNG'):
            e = self.num_expr(depth - 1)
            return A.BCall(fn, [e], '%' if fn == 'CINT' else '&')
        if fn == 'LEN' and self.feat('strings'):
            return A.BCall('LEN', [self.str_expr(depth - 1)], '&')
        if fn == 'ASC' and self.feat('strings'):
            s = self.str_expr(depth - 1)
            if self.chance(0.8):
                s = A.Bin('+', s, A.Str(self.pick('aZ 0~')), '$')
            return A.BCall('ASC', [s], '%')
        if fn == 'VAL' and self.feat('strings'):
            if self.chance(0.7):
                txt = self.pick(['12', '3.5', '-7', '1e3', '  42', '&H1F',
                                 'abc', '', '1.5D2', '.25', '99999',
                                 '12abc', '-.5'])
                return A.BCall('VAL', [A.Str(txt)], '#')
            return A.BCall('VAL', [self.str_expr(depth - 1)], '#')
        if fn == 'INSTR' and self.feat('strings'):
            a, b = self.str_expr(depth - 1), self.str_expr(depth - 1)
            if self.chance(0.5):
                start = self.num_expr(0, t='%') if self.chance(0.3) else \
                    self.int_const_expr(self.i(1, 4))
                return A.BCall('INSTR', [start, a, b], '&')
            return A.BCall('INSTR', [a, b], '&')
        if fn == 'RND' and self.feat('devices'):
            if self.chance(0.5):
                return A.BCall('RND', [], '!')
            return A.BCall('RND', [self.num_expr(0)], '!')
        if fn == 'TIMER' and self.feat('devices'):
            return A.BCall('TIMER', [], '!')
        if fn in ('LBOUND', 'UBOUND'):
            arrs = [v for v in self.visible_vars().values()
                    if v.dims is not None]
            if arrs:
                v = self.pick(arrs)
                args = [A.LV(v.name, [], [], None)]
                if self.chance(0.5) or len(v.dims) > 1:
                    args.append(self.int_const_expr(
                        self.i(1, len(v.dims))))
                return A.BCall(fn, args, '&')
        return self.num_atom(t)

    def str_expr(self, depth):
        if not self.feat('strings'):
            return A.Str('s')
        if depth <= 0:
            return self.str_atom()
        r = self.i(0, 11)
        if r <= 2:
            return self.str_atom()
        if r <= 4:
            return A.Bin('+', self.str_expr(depth - 1),
                         self.str_expr(depth - 1), '$')
        if r == 5:
            return A.BCall(self.pick(BUILTIN_STR1),
                           [self.str_expr(depth - 1)], '$')
        if r == 6:
            fn = self.pick(['LEFT$', 'RIGHT$'])
            return A.BCall(fn, [self.str_expr(depth - 1),
                                self.count_expr(depth - 1)], '$')
        if r == 7:
            args = [self.str_expr(depth - 1), self.pos_expr(depth - 1)]
            if self.chance(0.6):
                args.append(self.count_expr(depth - 1))
            return A.BCall('MID$', args, '$')
        if r == 8:
            fn = self.pick(['STR$', 'CHR$', 'SPACE$', 'STRING$'])
            if fn == 'STR$':
                return A.BCall(fn, [self.num_expr(depth - 1)], '$')
            if fn == 'CHR$':
                if not self.chance(self.p.error_rate):
                    return A.BCall(fn, [self.int_const_expr(
                        self.i(32, 126))], '$')
                return A.BCall(fn, [self.num_expr(depth - 1)], '$')
            if fn == 'SPACE$':
                return A.BCall(fn, [self.count_expr(depth - 1)], '$')
            if self.chance(0.5):
                return A.BCall(fn, [self.count_expr(depth - 1),
                                    self.int_const_expr(self.i(33, 122))],
                               '$')
            s = A.Bin('+', self.str_expr(depth - 1),
                      A.Str(self.pick('xyz')), '$')
            return A.BCall(fn, [self.count_expr(depth - 1), s], '$')
        if r == 9 and self.feat('devices'):
            return A.BCall('INKEY$', [], '$')
        if r == 10:
            f = self.func_call(depth, numeric=False)
            if f is not None:
                return f
        return self.str_atom()

    def count_expr(self, depth):
        if not self.chance(0.2 * self.p.error_rate * 4):
            return self.int_const_expr(self.i(0, 6))
        return self.num_expr(depth)

    def pos_expr(self, depth):
        if not self.chance(0.15 * self.p.error_rate * 4):
            return self.int_const_expr(self.i(1, 5))
        return self.num_expr(depth)

    def str_atom(self):
        r = self.i(0, 9)
        if r <= 4:
            lv = self.lvalue('$', allow_reserved=True)
            if lv is not None:
                return lv
        if r == 5:
            cs = [(n, c) for n, c in self.visible_consts().items()
                  if c[0] == '$']
            if cs:
                n, c = self.pick(cs)
                return A.ConstRef(n, '$')
        return self.strlit()

    def any_expr(self, depth):
        if self.feat('strings') and self.chance(0.3):
            return self.str_expr(depth)
        return self.num_expr(depth)

    # ------------------------------------------------------------- calls
    def callable_procs(self, kind):
        """Procedures the current code may call (no cycles)."""
        if self.in_proc_idx is None:
            lst = self.procs
        else:
            lst = self.procs[:self.in_proc_idx]
        return [p for p in lst if p.kind == kind]

    def call_args(self, sig, depth, rec_arg=None):
        args = []
        for k, prm in enumerate(sig.params):
            if prm.is_array:
                arrs = [v for v in self.visible_vars().values()
                        if v.dims is not None and v.t == prm.t and
                        len(v.dims) == 1]
                if not arrs:
                    return None
                args.append(A.ArrPass(self.pick(arrs).name, prm.t))
                continue
            if sig.recursive and k == 0:
                args.append(rec_arg if rec_arg is not None else
                            self.int_const_expr(self.i(0, 3)))
                continue
            if A.is_rec(prm.t):
                recs = [v for v in self.visible_vars().values()
                        if v.t == prm.t and v.kind != 'param_array']
                if not recs:
                    return None
                v = self.pick(recs)
                idx = []
                if v.dims is not None:
                    idx = [self.int_const_expr(self.i(lo, hi))
                           for lo, hi in v.dims]
                args.append(A.LV(v.name, idx, [], prm.t))
                self.note('record_arg')
                continue
            r = self.i(0, 9)
            if r <= 3:
                lv = self.lvalue(prm.t, for_write=True)    # by reference
                if lv is not None:
                    self.note('byref_arg')
                    args.append(lv)
                    continue
            if r <= 5:
                lv = self.lvalue(prm.t, allow_reserved=True)
                if lv is not None:
                    if prm.t != '$' and self.chance(0.3):
                        # +v is an expression, i.e. passed by value
                        self.note('byval_plus_arg')
                        args.append(A.Un('pos', lv, lv.t))
                        continue
                    self.note('byval_paren_arg')
                    args.append(A.Paren(lv))
                    continue
            if prm.t == '$':
                e = self.str_expr(max(depth - 1, 0))
                if isinstance(e, (A.LV,)):
                    e = A.Paren(e)
            else:
                e = self.num_expr(max(depth - 1, 0))
                if isinstance(e, A.LV):
                    if e.t != prm.t or self.is_reserved(e):
                        e = A.Paren(e)
            if isinstance(e, (A.ConstRef, A.FCall)) and e.t != prm.t:
                # qbee type-checks a bare CONST / function-call argument as
                # a by-reference variable (exact type match); keep to the
                # form both readings accept
                e = A.Paren(e)
            args.append(e)
        return args

    def is_reserved(self, lv):
        v = self.visible_vars().get(lv.name)
        return v is not None and v.reserved

    def func_call(self, depth, numeric):
        if not self.feat('procs'):
            return None
        fs = [f for f in self.callable_procs('function')
              if (f.rt in A.NUMERIC) == numeric]
        if not fs:
            return None
        f = self.pick(fs)
        args = self.call_args(f, depth)
        if args is None:
            return None
        self.note('func_call')
        return A.FCall(f.name, args, f.rt)

    # ---------------------------------------------------------- statements
    def block(self, depth, n=None, straight=False):
        saved_straight = self.straight
        self.straight = straight and saved_straight
        try:
            return self._block(depth, n)
        finally:
            self.straight = saved_straight

    def _block(self, depth, n):
        if n is None:
            if self.chance(self.p.empty_blocks):
                self.note('empty_block')
                return []
            n = self.i(1, 3)
        out = []
        for _ in range(n):
            if self.stmt_budget <= 0:
                break
            out.extend(self.statement(depth))
        return out

    def statement(self, depth):
        """Returns a list of statements (some patterns need several)."""
        self.stmt_budget -= 1
        if self.p.call_bias and self.feat('procs') and \
                self.chance(self.p.call_bias):
            s = self.call_sub(depth)
            if s is not None:
                return [s]
        if self.p.probe_rate and self.chance(self.p.probe_rate):
            s = self.probe_stmt()
            if s is not None:
                return [s]
        r = self.i(0, 29)
        if r <= 6:
            return [self.assign()]
        if r <= 11:
            return [self.print_stmt()]
        if r <= 13 and depth > 0:
            return [self.if_block(depth)]
        if r == 14:
            return [self.if_line(depth)]
        if r <= 16 and depth > 0:
            return self.for_loop(depth)
        if r == 17 and depth > 0:
            return self.counted_loop(depth)
        if r == 18 and depth > 0 and self.feat('select'):
            return [self.select(depth)]
        if r == 19 and self.feat('procs'):
            s = self.call_sub(depth)
            if s is not None:
                return [s]
        if r == 20 and self.feat('gosub') and self.scope is self.main \
                and depth == self.p.max_depth:
            return self.gosub_stmt()
        if r == 21 and self.feat('goto') and self.scope is self.main:
            return self.goto_pattern(depth)
        if r == 22 and self.feat('data') and self.scope is self.main:
            return self.read_stmt()
        if r == 23 and self.feat('input'):
            return [self.input_stmt()]
        if r == 24 and self.feat('devices'):
            return [self.device_stmt()]
        if r == 25 and self.straight:
            return self.decl_stmt()
        if r == 26 and self.feat('const') and self.straight:
            s = self.const_stmt()
            if s is not None:
                return [s]
        if r == 27:
            return self.exit_stmt()
        if r == 28 and self.feat('print_using'):
            return [self.print_using()]
        if r == 29 and self.scope.kind == 'function':
            sig = self.procs[self.in_proc_idx]
            e = self.str_expr(1) if sig.rt == '$' else \
                self.num_expr(2, t=sig.rt)
            return [A.RetAssign(sig.name, e, sig.rt)]
        return [self.assign()]

    def assign(self):
        if self.feat('strings') and self.chance(0.25):
            lv = self.target('$')
            return A.Assign(lv, self.str_expr(self.p.expr_depth - 1))
        lv = self.target('num')
        if lv.fields and self.chance(0.35):
            # copy between two fields of the same record variable
            v = self.visible_vars().get(lv.name)
            if v is not None and A.is_rec(v.t):
                others = [path for path, ft in self.rec_leaves(v.t)
                          if ft == lv.t and list(path) != list(lv.fields)]
                if others:
                    self.note('field_to_field_copy')
                    return A.Assign(lv, A.LV(lv.name, copy.deepcopy(lv.idx),
                                             list(self.pick(others)), lv.t))
        t = lv.t if self.chance(0.6) else None
        e = self.num_expr(self.p.expr_depth, t=t)
        if e.t != lv.t:
            self.note('implicit_conv')
        return A.Assign(lv, e)

    def print_stmt(self):
        n = self.i(0, 4)
        items = []
        for k in range(n):
            if self.chance(0.15):
                items.append(self.pick(';,'))
            items.append(self.any_expr(self.p.expr_depth - 1))
            if k < n - 1:
                items.append(self.pick(';;,'))
        if n and self.chance(0.25):
            items.append(self.pick(';,'))
        # no two adjacent expressions
        return A.Print(items)

    # probes: PRINT "@@"; e1; e2 ... where every e is built only from
    # variables, array elements, record fields, constants, literals and
    # operators (no calls) - the expressions a debugger can evaluate
    def probe_atom(self):
        r = self.i(0, 9)
        if r <= 6:
            cands = []
            for v in self.visible_vars().values():
                if v.kind == 'param_array':
                    continue
                if A.is_rec(v.t):
                    for path, ft in self.rec_leaves(v.t):
                        cands.append((v, path, ft))
                else:
                    cands.append((v, (), v.t))
            if cands:
                v, path, ft = self.pick(cands)
                idx = []
                if v.dims is not None:
                    idx = [self.int_const_expr(self.i(lo, hi))
                           for lo, hi in v.dims]
                    self.note('probe_array_element')
                    if v.dynamic:
                        self.note('probe_dynamic_array')
                if path:
                    self.note('probe_field')
                self.note('probe_' + v.kind)
                return A.LV(v.name, idx, list(path), ft)
        if r <= 8:
            cs = self.visible_consts()
            if cs:
                name = self.pick(sorted(cs))
                self.note('probe_const')
                return A.ConstRef(name, cs[name][0])
        t = self.pick('%&!#$' if self.feat('strings') else '%&!#')
        return self.strlit() if t == '$' else self.lit(t)

    def probe_expr(self):
        a = self.probe_atom()
        if self.chance(0.6):
            return a
        b = None
        for _ in range(4):
            b = self.probe_atom()
            if (a.t == '$') == (b.t == '$'):
                break
        else:
            return a
        if a.t == '$':
            op = self.pick(['+', '=', '<', '>=', '<>'])
            return A.Bin(op, a, b, '$' if op == '+' else '%')
        wide = max(a.t, b.t, key='%&!#'.index)
        op = self.pick(['+', '-', '*', '=', '<', '>', '<=', '<>', 'AND',
                        'OR', 'neg', 'NOT'])
        if op == 'neg':
            return A.Un('neg', a, a.t)
        if op == 'NOT':
            return A.Un('NOT', a, a.t if a.t in '%&' else '&')
        if op in ('+', '-', '*'):
            return A.Bin(op, a, b, wide)
        if op in ('AND', 'OR'):
            return A.Bin(op, a, b, wide if wide in '%&' else '&')
        return A.Bin(op, a, b, '%')

    def probe_stmt(self):
        items = [A.Str('@@')]
        for _ in range(self.i(1, 3)):
            items.append(';')
            items.append(self.probe_expr())
        self.note('probe')
        return A.Print(items)

    def print_using(self):
        fmt = self.pick(['##.##', '###', '+##.#', '#,###.##', '&', '!',
                         'a_#b ##'])
        if fmt in ('&', '!'):
            return A.Print([self.str_expr(1)], using=A.Str(fmt))
        return A.Print([self.num_expr(1)], using=A.Str(fmt))

    def if_block(self, depth):
        arms = [(self.cond(self.p.expr_depth - 1), self.block(depth - 1))]
        for _ in range(self.i(0, 2) if self.chance(0.4) else 0):
            arms.append((self.cond(self.p.expr_depth - 1),
                         self.block(depth - 1)))
        els = None
        if self.chance(0.5):
            els = self.block(depth - 1)
        self.note('if_block')
        return A.If(arms, els)

    def simple_for_ifline(self):
        r = self.i(0, 5)
        if r <= 2:
            return self.assign()
        if r <= 4:
            return self.print_stmt()
        if self.feat('procs'):
            s = self.call_sub(1)
            if s is not None and (s.args or True):
                return s
        return self.print_stmt()

    def if_line(self, depth):
        saved_straight = self.straight
        self.straight = False
        try:
            return self._if_line(depth)
        finally:
            self.straight = saved_straight

    def _if_line(self, depth):
        then = [self.simple_for_ifline() for _ in range(self.i(1, 2))]
        els = None
        if self.chance(0.5):
            els = [self.simple_for_ifline() for _ in range(self.i(1, 2))]
            last = then[-1]
            if isinstance(last, A.Print) and (
                    not last.items or last.items[-1] in (';', ',')):
                # qbee's grammar cannot read `PRINT x; ELSE` (QBASIC can)
                last.items.append(A.Str('.'))
        # a bare parameterless call inside a single-line IF must use CALL
        self.note('if_line')
        return A.IfLine(self.cond(self.p.expr_depth - 1), then, els)

    def for_loop(self, depth):
        t = self.pick('%%%&!#')
        v = self.new_scalar(t, reserved=True)
        n = self.i(0, self.p.max_iter)
        form = self.i(0, 5)
        start = self.i(-3, 5)
        if form <= 2:
            step = None
            a, b = start, start + n - 1
            v.rng = (a, max(a, b))
            stepv = 1
        elif form == 3:
            stepv = -self.i(1, 3)
            a, b = start, start + (n - 1) * stepv if n else start + 1
            v.rng = (min(a, b), max(a, b)) if n else (a, a)
            step = stepv
        elif form == 4 and t in '!#':
            stepv = self.pick([0.5, 0.25, 1.5])
            a, b = start, start + (n - 1) * stepv
            step = stepv
            v.rng = None
        else:
            stepv = self.i(1, 3)
            a, b = start, start + (n - 1) * stepv + self.i(0, stepv - 1) \
                if n else start - 1
            v.rng = (a, max(a, b))
            step = stepv
        ea = self.mk_signed(t, a)
        eb = self.mk_signed(t, b)
        es = None if step is None else self.mk_signed(t, step)
        if self.chance(0.2):
            # bounds of another numeric type (implicit conversion)
            t2 = self.pick('%&!#')
            if float(int(a)) == a and float(int(b)) == b:
                ea, eb = self.mk_signed(t2, a), self.mk_signed(t2, b)
        saved_do = self.do_depth
        self.do_depth = 0
        self.for_depth += 1
        body = self.block(depth - 1)
        if self.for_depth == 1 and n >= 2 and depth >= 1 and \
                self.chance(self.p.nested_exit * 0.5):
            # an inner loop left early by EXIT FOR, with work after it
            iv = self.new_scalar('%', reserved=True)
            ilv = A.LV(iv.name, [], [], '%')
            body.append(A.For(ilv, self.mklit('%', 1), self.mklit('%', 3),
                              None, [
                A.Print([A.Str('in'), ';', ilv]),
                A.IfLine(A.Bin('>=', ilv, self.mklit('%', 2), '%'),
                         [A.Exit('FOR')], None),
                A.Print([A.Str('not after exit')])]))
            body.append(A.Print([A.Str('after inner'), ';',
                                 A.LV(v.name, [], [], t)]))
            iv.reserved = False
            self.note('exit_for_in_nested_for')
        self.for_depth -= 1
        self.do_depth = saved_do
        if self.for_depth >= 1 and n >= 2 and float(int(a)) == a and \
                float(int(stepv)) == stepv and \
                self.chance(self.p.nested_exit):
            # leave the inner loop in its second iteration
            second = int(a + stepv)
            cond = A.Bin('>=' if stepv > 0 else '<=',
                         A.LV(v.name, [], [], t), self.mk_signed(t, second),
                         '%')
            body.insert(self.i(0, len(body)),
                        A.IfLine(cond, [A.Exit('FOR')], None))
            self.note('exit_for_in_nested_for')
        v.rng = None
        v.reserved = False
        self.note('for')
        if n >= 2:
            self.note('loop_2plus')
        return [A.For(A.LV(v.name, [], [], t), ea, eb, es, body)]

    def mk_signed(self, t, v):
        if v < 0:
            e = self.mklit(t, -v)
            return A.Un('neg', e, t)
        return self.mklit(t, v)

    def empty_do(self):
        """DO / LOOP UNTIL <true> with an empty body (the bare DO generates
        no code of its own)."""
        lit = self.strlit()
        cond = A.Bin('>=', A.BCall('LEN', [lit], '&'), self.mklit('%', 0),
                     '%')
        self.note('empty_bare_do')
        if self.chance(0.5):
            return A.Do('loop_until', cond, [])
        return A.Do('loop_while', A.Un('NOT', A.Paren(cond), '%'), [])

    def counted_loop(self, depth):
        """WHILE / DO loop driven by a reserved counter."""
        if self.p.empty_blocks and self.chance(self.p.empty_blocks * 0.5):
            return [self.empty_do()]
        c = self.new_scalar(self.pick('%%&'), reserved=True)
        n = self.i(0, self.p.max_iter)
        clv = A.LV(c.name, [], [], c.t)
        init = A.Assign(clv, self.mklit(c.t, 0))
        lt = A.Bin('<', clv, self.mklit('%', n), '%')
        ge = A.Bin('>=', clv, self.mklit('%', n), '%')
        if self.chance(0.3):
            extra = self.relation(1)
            if not self.has_call(extra) or True:
                lt2 = A.Bin('AND', lt, extra, '%')
                ge2 = A.Bin('OR', ge, A.Un('NOT', A.Paren(extra), '%'), '%')
            lt, ge = lt2, ge2
        c.rng = (0, max(n - 1, 0))
        kind = self.pick(['while', 'do_while', 'do_until', 'loop_while',
                          'loop_until', 'forever'])
        saved_depths = (self.do_depth, self.for_depth)
        if kind == 'while':
            # EXIT DO / EXIT FOR would leave an enclosing loop and skip the
            # counter increment
            self.do_depth = 0
            self.for_depth = 0
        else:
            self.do_depth += 1
            self.for_depth = 0
        body = self.block(depth - 1)
        if kind != 'while' and n >= 2 and depth >= 1 and \
                self.chance(self.p.nested_exit * 0.5):
            # an inner DO loop left early by EXIT DO, with work after it
            iv = self.new_scalar('%', reserved=True)
            ilv = A.LV(iv.name, [], [], '%')
            body.append(A.Assign(ilv, self.mklit('%', 0)))
            body.append(A.Do(self.pick(['forever', 'loop_until']),
                             None, [
                A.Assign(ilv, A.Bin('+', ilv, self.mklit('%', 1), '%')),
                A.Print([A.Str('in do'), ';', ilv]),
                A.IfLine(A.Bin('>=', ilv, self.mklit('%', 2), '%'),
                         [A.Exit('DO')], None),
                A.Print([A.Str('not after exit')])]))
            if body[-1].kind == 'loop_until':
                body[-1].cond = A.Bin('>=', ilv, self.mklit('%', 3), '%')
            body.append(A.Print([A.Str('after inner do'), ';', clv]))
            iv.reserved = False
            self.note('exit_do_in_nested_do')
        self.do_depth, self.for_depth = saved_depths
        c.rng = None
        incr = A.Assign(clv, A.Bin('+', clv, self.mklit(c.t, 1), c.t))
        body = body + [incr]
        self.note(kind)
        if n >= 2:
            self.note('loop_2plus')
        if kind == 'while':
            loop = A.While(lt, body)
        elif kind == 'do_while':
            loop = A.Do('do_while', lt, body)
        elif kind == 'do_until':
            loop = A.Do('do_until', ge, body)
        elif kind == 'loop_while':
            loop = A.Do('loop_while', lt, body)
        elif kind == 'loop_until':
            loop = A.Do('loop_until', ge, body)
        else:
            brk = A.IfLine(ge, [A.Exit('DO')], None)
            loop = A.Do('forever', None, [brk] + body)
        c.reserved = False
        return [init, loop]

    def select(self, depth):
        if self.feat('strings') and self.chance(0.2):
            sel = self.str_expr(1)
            mk = lambda: self.str_expr(0)
        else:
            t = self.pick('%%&!#')
            sel = self.num_expr(1, t=t)
            # case values of the selector's own type (agreed subset)
            st_ = sel.t
            mk = lambda: self.num_expr(0, t=st_) \
                if self.chance(0.3) else self.lit(st_)
        cases = []
        mixed = self.p.mixed_case_types and sel.t != '$'
        for _ in range(self.i(0, 3)):
            clauses = []
            for _ in range(self.pick([1, 1, 2, 2, 3, 4])):
                k = self.i(0, 2)
                if mixed and self.chance(0.5):
                    # clause values of any numeric type (outside R's subset)
                    lo = self.lit(self.pick('%&!#'))
                    hi = self.lit(self.pick('%&!#'))
                    self.note('case_mixed_types')
                    if k == 0:
                        clauses.append(('v', lo))
                    elif k == 1:
                        clauses.append(('range', lo, hi))
                    else:
                        clauses.append(('is', self.pick(
                            ['=', '<>', '<', '>', '<=', '>=']), lo))
                    continue
                if k == 0:
                    clauses.append(('v', self.same_type(mk(), sel.t)))
                elif k == 1:
                    clauses.append(('range', self.same_type(mk(), sel.t),
                                    self.same_type(mk(), sel.t)))
                else:
                    clauses.append(('is', self.pick(
                        ['=', '<>', '<', '>', '<=', '>=']),
                        self.same_type(mk(), sel.t)))
            cases.append((clauses, self.block(depth - 1)))
        els = self.block(depth - 1) if self.chance(0.5) else None
        if not cases:
            els = None if self.chance(0.5) else els
            if els is not None:
                # CASE ELSE needs a preceding CASE in qbee's block builder
                cases.append(([('v', self.same_type(mk(), sel.t))],
                              self.block(depth - 1)))
        self.note('select')
        return A.Select(sel, cases, els)

    def same_type(self, e, t):
        if e.t == t:
            return e
        if t == '$':
            return self.strlit()
        return self.lit(t)

    def call_sub(self, depth):
        subs = self.callable_procs('sub')
        if not subs:
            return None
        s = self.pick(subs)
        args = self.call_args(s, depth)
        if args is None:
            return None
        self.note('sub_call')
        return A.CallSub(s.name, args)

    def gosub_stmt(self):
        lbl = self.new_label()
        saved_budget = self.stmt_budget
        self.stmt_budget = min(self.stmt_budget, 3)
        body = self.block(0, n=self.i(1, 2), straight=False)
        self.stmt_budget = saved_budget - 2
        self.gosubs.append((lbl, body))
        self.note('gosub')
        out = [A.Gosub(lbl)]
        if self.chance(0.3):
            out.append(A.Gosub(lbl))
        return out

    def goto_pattern(self, depth):
        lbl = self.new_label()
        self.note('goto')
        if self.chance(0.5):
            # forward jump over some statements
            skipped = self.block(0, n=self.i(0, 2))
            g = A.Goto(lbl)
            if self.chance(0.5):
                g = A.IfLine(self.cond(1), [A.Goto(lbl)], None)
            return [g] + skipped + [A.LabelDef(lbl)] + \
                ([self.print_stmt()] if self.chance(0.5) else [])
        # counted backward jump
        c = self.new_scalar('%', reserved=True)
        clv = A.LV(c.name, [], [], '%')
        n = self.i(1, self.p.max_iter)
        c.rng = (0, n - 1)
        body = self.block(0, n=self.i(1, 2))
        c.rng = None
        c.reserved = False
        return [A.Assign(clv, self.mklit('%', 0)), A.LabelDef(lbl)] + body + \
            [A.Assign(clv, A.Bin('+', clv, self.mklit('%', 1), '%')),
             A.IfLine(A.Bin('<', clv, self.mklit('%', n), '%'),
                      [A.Goto(lbl)], None)]

    def exit_stmt(self):
        if self.for_depth and self.chance(0.5):
            return [A.IfLine(self.cond(1), [A.Exit('FOR')], None)]
        if self.do_depth:
            return [A.IfLine(self.cond(1), [A.Exit('DO')], None)]
        if self.scope.kind == 'sub' and self.chance(0.5):
            return [A.IfLine(self.cond(1), [A.Exit('SUB')], None)]
        if self.scope.kind == 'function' and self.chance(0.5):
            return [A.IfLine(self.cond(1), [A.Exit('FUNCTION')], None)]
        return [self.assign()]

    # ------------------------------------------------------ DATA / READ
    def data_text(self, kind):
        """One DATA item text readable as `kind` ('num' or 'str')."""
        if kind == 'num':
            r = self.i(0, 7)
            if r <= 4:
                return str(self.i(-50, 300))
            if r == 5:
                return self.pick(['1.5', '-2.25', '.5', '100000', '3e2'])
            if r == 6:
                return ''
            return str(self.i(0, 9))
        r = self.i(0, 6)
        if r <= 2:
            return self.pick(['abc', 'x y', 'Hello', 'q1', 'foo bar baz'])
        if r <= 4:
            return '"%s"' % self.pick(['a,b', ' pad ', 'x:y', '', 'Q'])
        if r == 5:
            return ''
        return str(self.i(0, 99))

    def read_stmt(self):
        """READ into 1-3 targets and append matching DATA items."""
        lvs = []
        for _ in range(self.i(1, 3)):
            want = '$' if self.feat('strings') and self.chance(0.3) \
                else 'num'
            lv = self.target(want)
            lvs.append(lv)
            if self.chance(0.93):
                kind = 'str' if lv.t == '$' else 'num'
                if lv.t in '%&' and kind == 'num':
                    txt = str(self.i(-50, 300)) if self.chance(0.9) else ''
                else:
                    txt = self.data_text(kind)
                self.data_items.append(txt)
        self.note('read')
        out = [A.Read(lvs)]
        if self.chance(0.15):
            out.append(A.Restore(None))
            self.note('restore')
            self.restored = True
        return out

    def flush_data(self):
        """Turn pending DATA item texts into DATA statements."""
        out = []
        items = self.data_items
        self.data_items = []
        k = 0
        while k < len(items):
            n = self.i(1, 4)
            chunk = items[k:k + n]
            k += n
            sep = self.pick([',', ', ', ' , '])
            out.append(A.Data(sep.join(chunk)))
        return out

    def input_stmt(self):
        lvs = []
        types = []
        for _ in range(self.i(1, 3)):
            want = '$' if self.feat('strings') and self.chance(0.3) \
                else 'num'
            lv = self.target(want)
            lvs.append(lv)
            types.append(lv.t)
        prompt = None
        sep = ';'
        if self.chance(0.6):
            prompt = self.pick(['Value', 'a b', '', 'Enter x:'])
            sep = self.pick(';,')
        self.input_types.append(types)
        self.note('input')
        return A.Input(self.chance(0.2), prompt, sep, lvs)

    def device_stmt(self):
        k = self.pick(['CLS', 'BEEP', 'COLOR', 'LOCATE', 'SOUND', 'PLAY',
                       'POKE', 'DEF SEG', 'RANDOMIZE', 'SCREEN', 'WIDTH',
                       'VIEW PRINT'])
        ic = self.int_const_expr
        self.note('device')
        if k in ('CLS', 'BEEP'):
            return A.Dev(k)
        if k == 'COLOR':
            # the argument shapes qbee's grammar knows
            shape = self.pick(['fbB', 'f-B', 'fb', '--B', '-b', 'f'])
            args = [ic(self.i(0, 15)) if ch != '-' else None
                    for ch in shape]
            return A.Dev(k, args)
        if k == 'LOCATE':
            args = [ic(self.i(1, 25)), ic(self.i(1, 80))]
            if self.chance(0.3):
                args.append(ic(self.i(0, 1)))
            return A.Dev(k, args)
        if k == 'SOUND':
            return A.Dev(k, [ic(self.i(37, 2000)), self.mklit(
                '!', self.i(1, 20) / 2.0)])
        if k == 'PLAY':
            return A.Dev(k, [A.Str(self.pick(['CDE', 'L8 A', 'T120O3G']))])
        if k == 'POKE':
            return A.Dev(k, [ic(self.i(0, 4000)), ic(self.i(0, 255))])
        if k == 'DEF SEG':
            if self.chance(0.4):
                return A.Dev(k, [])
            return A.Dev(k, [self.mklit('&', 0xB800)
                             if self.chance(0.5) else ic(0)])
        if k == 'RANDOMIZE':
            return A.Dev(k, [self.num_expr(1)])
        if k == 'SCREEN':
            return A.Dev(k, [ic(self.i(0, 13))])
        if k == 'WIDTH':
            return A.Dev(k, [ic(self.pick([40, 80])),
                             ic(self.pick([25, 43, 50]))
                             if self.chance(0.5) else None])
        return A.Dev(k, [ic(self.i(1, 5)), ic(self.i(10, 25))]
                     if self.chance(0.7) else [])

    # -------------------------------------------------------- declarations
    def dims(self):
        rank = self.pick([1, 1, 1, 2, 2, 3])
        out = []
        for _ in range(rank):
            lo = self.i(-3, 3)
            n = self.i(1, 4 if rank < 3 else 2)
            out.append((lo, lo + n - 1))
        return out

    def dim_exprs(self, dims, dynamic):
        out = []
        pre = []
        for lo, hi in dims:
            if dynamic:
                bv = self.new_scalar('%', reserved=True)
                pre.append(A.Assign(A.LV(bv.name, [], [], '%'),
                                    self.int_const_expr(hi)))
                hi_e = A.LV(bv.name, [], [], '%')
            else:
                hi_e = self.int_const_expr(hi)
            if lo == 0 and self.chance(0.6):
                out.append((None, hi_e))
            else:
                out.append((self.int_const_expr(lo), hi_e))
        return pre, out

    def decl_stmt(self, kind=None):
        """DIM / DIM SHARED / STATIC of 1-2 names."""
        if kind is None:
            if self.scope is self.main:
                kind = 'shared' if self.feat('shared') and self.chance(0.3) \
                    else 'dim'
            else:
                kind = 'static' if self.feat('static') and self.chance(0.4) \
                    else 'dim'
        decls = []
        pre = []
        for _ in range(self.i(1, 2)):
            recs = list(self.types)
            if self.feat('records') and recs and self.chance(0.35):
                t = 'T:' + self.pick(recs)
            else:
                t = self.pick('%%&!#$' if self.feat('strings') else '%%&!#')
            is_arr = self.feat('arrays') and self.chance(0.45)
            as_clause = A.is_rec(t) or self.chance(0.5)
            base = self.fresh_base()
            name = base if as_clause else base + t
            dims = None
            dexpr = None
            dynamic = False
            if is_arr:
                dims = self.dims()
                dynamic = self.chance(0.25) and kind != 'shared' \
                    and not self.avoid('dynamic_array')
                p2, dexpr = self.dim_exprs(dims, dynamic)
                pre.extend(p2)
                self.note('array_decl_rank%d' % len(dims))
                if dynamic:
                    self.note('dynamic_array')
            vkind = {'dim': 'static' if self.scope.static else 'local',
                     'shared': 'shared', 'static': 'static'}[kind]
            v = Var(name, t, dims, vkind, dynamic=dynamic)
            if kind == 'shared':
                self.shared[name] = v
                self.main.vars[name] = v
                self.note('shared_decl')
            else:
                self.scope.vars[name] = v
            if kind == 'static':
                self.note('static_decl')
            if A.is_rec(t):
                self.note('record_decl')
            decls.append(A.Decl(name, t, dexpr, as_clause))
        return pre + [A.Dim(kind, decls)]

    def const_stmt(self):
        t = self.pick('%%&!#$' if self.feat('strings') else '%%&!#')
        name = self.fresh_name(t, allow_plain=False)
        if t == '$':
            e = self.strlit()
            if self.chance(0.3):
                e = A.Bin('+', e, self.strlit(), '$')
        else:
            e = self.const_expr(2, t)
        # the constant's type is the type of its name's suffix; value is
        # converted; keep expression type == t so nothing is converted
        if e.t != t:
            e = self.lit(t)
        if self.scope is self.main:
            self.gconsts[name] = (t, e)
        else:
            self.scope.consts[name] = (t, e)
        self.note('const')
        return A.Const(name, e)

    def const_expr(self, depth, t):
        """A constant numeric expression of type t (literals and CONSTs)."""
        if depth <= 0 or self.chance(0.3):
            cs = [(n, c) for n, c in self.visible_consts().items()
                  if c[0] == t]
            if cs and self.chance(0.4):
                n, c = self.pick(cs)
                return A.ConstRef(n, t)
            return self.lit(t, small=not self.chance(self.p.edgy))
        op = self.pick(['+', '-', '*'])
        # small operands: a CONST that overflows is a compile-time error in
        # QBASIC, i.e. not a valid program
        l = self.lit(t) if self.chance(0.5) else self.const_ref_or_lit(t)
        r = self.lit(t)
        return A.Bin(op, l, r, t)

    def const_ref_or_lit(self, t):
        cs = [(n, c) for n, c in self.visible_consts().items()
              if c[0] == t and isinstance(c[1], A.Num)]
        if cs:
            n, c = self.pick(cs)
            return A.ConstRef(n, t)
        return self.lit(t)

    # ---------------------------------------------------------- procedures
    def make_types(self):
        n = self.i(0, 2)
        out = []
        for _ in range(n):
            tname = self.fresh_base()
            fields = []
            for _ in range(self.i(1, 4)):
                fname = self.fresh_base()
                prev = [x for x in self.types]
                if prev and self.chance(0.25):
                    ft = 'T:' + self.pick(prev)
                    self.note('nested_record')
                else:
                    ft = self.pick('%%&!#$' if self.feat('strings') and
                                   not self.avoid('string_field')
                                   else '%%&!#')
                fields.append((fname, ft))
            self.types[tname] = fields
            out.append(A.TypeDef(tname, fields))
        return out

    def make_sigs(self):
        n = self.i(self.p.min_procs, self.p.max_procs)
        for k in range(n):
            kind = self.pick(['sub', 'function'])
            base = self.fresh_base()
            params = []
            recursive = self.feat('recursion') and self.chance(0.25)
            if recursive:
                params.append(A.Param(self.fresh_base() + '%', '%'))
            for _ in range(self.i(0, 3)):
                t = self.pick('%%&!#$' if self.feat('strings') else '%%&!#')
                if self.types and self.feat('records') and \
                        self.chance(self.p.record_params):
                    # a record passed by reference
                    tn = self.pick(sorted(self.types))
                    params.append(A.Param(self.fresh_base(), 'T:' + tn,
                                          False, True))
                    self.note('record_param')
                    continue
                is_arr = self.feat('arrays') and self.chance(0.15)
                as_clause = self.chance(0.4)
                pb = self.fresh_base()
                pname = pb if as_clause else pb + t
                if not as_clause and self.default_type_of(pb) == t and \
                        self.chance(0.5):
                    pname = pb       # neither AS nor a type suffix
                    self.note('plain_param')
                params.append(A.Param(pname, t, is_arr, as_clause))
            rt = None
            name = base
            if kind == 'function':
                rt = self.pick('%%&!#$' if self.feat('strings') else '%%&!#')
                name = base + rt
            static = self.feat('static') and self.chance(0.2)
            self.procs.append(ProcSig(kind, name, params, rt, static,
                                      recursive))

    def make_proc(self, idx):
        sig = self.procs[idx]
        sc = Scope(sig.kind, sig.name, self.main)
        sc.static = sig.static
        saved = (self.scope, self.in_proc_idx, self.stmt_budget,
                 self.for_depth, self.do_depth)
        self.scope = sc
        self.in_proc_idx = idx
        self.for_depth = self.do_depth = 0
        self.stmt_budget = self.i(1, 5)
        for k, prm in enumerate(sig.params):
            v = Var(prm.name, prm.t, None, 'param')
            if prm.is_array:
                v.dims = [(0, 1)]      # callers pass rank-1 arrays; subscripts
                v.dynamic = True       # use LBOUND-relative safe indices
                v.kind = 'param_array'
            if sig.recursive and k == 0:
                v.reserved = True
            sc.vars[prm.name] = v
        body = []
        if sig.recursive:
            # IF n% > 0 THEN <recursive call with n% - 1>
            nlv = A.LV(sig.params[0].name, [], [], '%')
            dec = A.Bin('-', nlv, self.mklit('%', 1), '%')
            # allow calling self
            self.in_proc_idx = idx + 1
            args = self.call_args(sig, 1, rec_arg=dec)
            self.in_proc_idx = idx
            inner = []
            if args is not None:
                if sig.kind == 'sub':
                    inner = [A.CallSub(sig.name, args)]
                else:
                    tmp = self.new_scalar(sig.rt)
                    inner = [A.Assign(A.LV(tmp.name, [], [], sig.rt),
                                      A.FCall(sig.name, args, sig.rt))]
                self.note('recursion')
            pre = self.block(1, n=self.i(0, 2), straight=True)
            post = self.block(1, n=self.i(0, 2))
            body = pre + [A.If([(A.Bin('>', nlv, self.mklit('%', 0), '%'),
                                 inner)], None)] + post
        else:
            body = self.block(1, n=self.i(0, 4), straight=True)
        if sig.kind == 'function' and self.chance(0.9):
            if sig.rt == '$':
                e = self.str_expr(1)
            else:
                e = self.num_expr(2, t=sig.rt)
            ra = A.RetAssign(sig.name, e, sig.rt)
            body.append(ra)
        self.scope, self.in_proc_idx, self.stmt_budget, self.for_depth, \
            self.do_depth = saved
        return A.Proc(sig.kind, sig.name, sig.params, sig.static, body,
                      sig.rt)

    # ------------------------------------------------------------- program
    def program(self):
        top = []
        if self.feat('deftype') and self.chance(0.3):
            for _ in range(self.i(1, 2)):
                t = self.pick('%&!#$' if self.feat('strings') else '%&!#')
                a = self.pick('abcdefghijklmnopqrstuvw')
                b = None
                if self.chance(0.5):
                    b = chr(min(ord('z'), ord(a) + self.i(1, 3)))
                for c in range(ord(a), ord(b or a) + 1):
                    self.deftype[chr(c)] = t
                top.append(A.DefType(t, [(a, b)]))
                self.note('deftype')
        if self.feat('records'):
            top.extend(self.make_types())
        if self.feat('procs'):
            self.make_sigs()
        # module-level declarations first (SHARED, CONST), so that the
        # procedures generated next can see them
        self.scope = self.main
        self.in_proc_idx = None
        self.straight = True
        for _ in range(self.i(0, 3)):
            if self.feat('const') and self.chance(0.3):
                c = self.const_stmt()
                if c is not None:
                    top.append(c)
            else:
                top.extend(self.decl_stmt())
        procs = [self.make_proc(k) for k in range(len(self.procs))]
        # main body
        self.scope = self.main
        self.in_proc_idx = None
        self.straight = True
        while self.stmt_budget > 0:
            top.extend(self.statement(self.p.max_depth))
        self.straight = False
        need_end = bool(self.gosubs)
        if need_end or self.chance(0.3):
            top.append(A.End())
            if self.p.dead_code and self.chance(self.p.dead_code):
                # unreachable code (its literals and variables still exist
                # at compile time)
                for _ in range(self.i(1, 2)):
                    top.append(self.print_stmt() if self.chance(0.7)
                               else self.assign())
                self.note('dead_code_after_end')
        for lbl, body in self.gosubs:
            top.append(A.LabelDef(lbl))
            top.extend(body)
            top.append(A.Return())
        data = self.flush_data()
        # interleave DATA statements anywhere at module level, procedures too
        body = top
        for d in data:
            pos = self.i(0, len(body))
            # never split label from following statement semantics: fine
            body.insert(pos, d)
        # procedures follow the module-level code (as the QBASIC environment
        # stores them); DATA may also follow a procedure
        out = list(body)
        for pr in procs:
            out.append(pr)
            if self.feat('data') and data and self.chance(0.2):
                out.append(A.Data(str(self.i(0, 9))))
                self.note('data_after_proc')
        return A.Program(out)


def make_script(draw, gen):
    """Device script for a drawn program."""
    inputs = []
    for types in gen.input_types:
        for _attempt in range(3):
            fields = []
            for t in types:
                if t == '$':
                    fields.append(draw(st.sampled_from(
                        ['abc', ' x ', '', 'hello world', '12'])))
                elif t in '%&':
                    fields.append(str(draw(st.integers(-99, 999))))
                else:
                    fields.append(draw(st.sampled_from(
                        ['1.5', '-2', '0', '3e2', '.25', '77'])))
            inputs.append(','.join(fields))
    rnd = [f32(draw(st.integers(0, 999)) / 1000.0) for _ in range(4)]
    timer = [f32(draw(st.integers(0, 86399)) + 0.5) for _ in range(3)]
    inkey = [draw(st.sampled_from(['', 'a', 'Z', '\x00H', ' ']))
             for _ in range(3)]
    return dict(inputs=inputs, rnd=rnd, timer=timer, inkey=inkey)


@st.composite
def programs(draw, params=None):
    params = params or Params()
    g = Gen(draw, params)
    prog = g.program()
    script = make_script(draw, g)
    return prog, script, g.stats


@st.composite
def styles(draw):
    seed = draw(st.integers(0, 2 ** 32 - 1))
    return Style(
        seed=seed,
        kwcase=draw(st.sampled_from(['upper', 'lower', 'mixed'])),
        idcase=draw(st.sampled_from(['lower', 'upper', 'mixed'])),
        spacing=draw(st.sampled_from(['normal', 'tight', 'random'])),
        comments=draw(st.booleans()),
        join=draw(st.sampled_from([0.0, 0.3, 0.8])),
        let=draw(st.sampled_from([0.0, 0.5, 1.0])),
        call_kw=draw(st.sampled_from([0.0, 0.5, 1.0])),
        next_var=draw(st.sampled_from([0.0, 0.5, 1.0])),
        ne_alt=draw(st.sampled_from([0.0, 0.5, 1.0])),
        blank_lines=draw(st.sampled_from([0.0, 0.2])),
        labels=draw(st.sampled_from(['keep', 'numbers', 'names'])),
        end_space=draw(st.booleans()),
    )
