"""qv - property-based verification machinery for elektito/qbee.

All modules here import the code under test from /repo (or $QBEE_REPO) at
call time; nothing is cached between processes."""
import os
import sys

REPO = os.path.realpath(os.environ.get('QBEE_REPO', '/repo'))
ROOT = os.path.dirname(os.path.dirname(os.path.abspath(__file__)))

if REPO not in sys.path:
    sys.path.insert(0, REPO)


def install_fast_arena():
    """Speed-up only (see native/fastarena.c): cache CPython's arena blocks
    instead of munmap-ing them.  Silently skipped when the shim is absent."""
    import ctypes
    so = os.path.join(ROOT, 'native', 'libfastarena.so')
    if os.environ.get('QV_NO_FASTARENA') or not os.path.exists(so):
        return False
    try:
        lib = ctypes.CDLL(so)
        alloc = ctypes.c_void_p.in_dll(lib, 'qv_allocator')
        ctypes.pythonapi.PyObject_SetArenaAllocator.argtypes = [
            ctypes.c_void_p]
        ctypes.pythonapi.PyObject_SetArenaAllocator.restype = None
        ctypes.pythonapi.PyObject_SetArenaAllocator(
            ctypes.addressof(alloc))
        return True
    except Exception:
        return False


FAST_ARENA = install_fast_arena()
