"""Normalised event traces: one vocabulary for real runs (qv.run) and the
reference interpreter (qv.ref).

    ('PRINT', items)          items: ('v', type, value) | ('sep', c) |
                              ('using', fmt)     -- typed values, not text
    ('TEXT', text)            text written outside PRINT (prompts, redo)
    ('INPUT', same_line, line)
    ('READ', type, value)     one DATA read
    device calls as recorded: ('cls',), ('color', f, b, bd), ('rnd_next', v),
    ('timer', v), ('inkey', k), ('poke', a, v), ...
"""
from .cases import _nv


def normalise(events):
    out = []
    pending_items = None
    for e in events:
        k = e[0]
        if k == 'print_items':
            pending_items = e[1]
            continue
        if k == 'print':
            if pending_items is not None or pending_items == []:
                out.append(('PRINT', pending_items))
                pending_items = None
                continue
            if e[1] == '':
                continue
            if out and out[-1][0] == 'TEXT':
                out[-1] = ('TEXT', out[-1][1] + e[1])
            else:
                out.append(('TEXT', e[1]))
            continue
        if pending_items is not None:
            # the PRINT statement failed before writing (e.g. USING error)
            out.append(('PRINT_FAILED', pending_items))
            pending_items = None
        if k == 'input':
            out.append(('INPUT', e[1], e[2]))
        elif k == 'data_read':
            out.append(('READ', e[1], e[2]))
        elif k == 'data_restore':
            continue
        else:
            out.append(tuple(e))
    if pending_items is not None:
        out.append(('PRINT_FAILED', pending_items))
    return out


def norm_ref(events):
    """Reference events: merge adjacent TEXT, drop empty TEXT."""
    out = []
    for e in events:
        if e[0] == 'TEXT':
            if not e[1]:
                continue
            if out and out[-1][0] == 'TEXT':
                out[-1] = ('TEXT', out[-1][1] + e[1])
                continue
        out.append(e)
    return out


def canon(events):
    return [_nv(e) for e in events]


def diff(a, b):
    """First difference between two normalised traces or None."""
    ca, cb = canon(a), canon(b)
    n = min(len(ca), len(cb))
    for i in range(n):
        if ca[i] != cb[i]:
            return i, a[i], b[i]
    if len(ca) != len(cb):
        return n, (a[n] if n < len(a) else None), (b[n] if n < len(b)
                                                   else None)
    return None
