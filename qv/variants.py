"""Behaviour-changing but validity-preserving program variants used to reach
code the first run of a generated program does not execute."""


def flipped(prog):
    """The same program with every IF condition negated (block IF, ELSEIF
    and single-line IF): the branches the original run skips are executed.
    Loops are left alone (they would not terminate).  None if there is no
    IF."""
    import copy
    from . import ast as A
    p2 = copy.deepcopy(prog)
    n = 0

    def neg(c):
        return A.Un('NOT', A.Paren(c), '&')
    def mentions(node, name):
        """Does the subtree call the procedure `name`?"""
        if isinstance(node, (A.CallSub, A.FCall)) and \
                node.name.rstrip('%&!#$') == name:
            return True
        if isinstance(node, (list, tuple)):
            return any(mentions(x, name) for x in node)
        if isinstance(node, A.Node):
            for cls in type(node).__mro__:
                for f in getattr(cls, '__slots__', ()):
                    if mentions(getattr(node, f, None), name):
                        return True
        return False

    def flip_body(body, recursive):
        nonlocal n
        for s_, _ in A.walk_stmts(body):
            if isinstance(s_, A.Proc):
                continue
            if recursive and isinstance(s_, (A.If, A.IfLine)):
                continue        # a recursion guard must stay as it is
            if isinstance(s_, A.If):
                s_.arms = [(neg(c), b) for c, b in s_.arms]
                n += 1
            elif isinstance(s_, A.IfLine):
                s_.cond = neg(s_.cond)
                n += 1
    procs = [s_ for s_ in p2.body if isinstance(s_, A.Proc)]
    flip_body([s_ for s_ in p2.body if not isinstance(s_, A.Proc)], False)
    for pr in procs:
        flip_body(pr.body, mentions(pr.body, pr.name.rstrip('%&!#$')))
    return p2 if n else None


