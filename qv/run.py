"""X - compile / load / execute harness around the real qbee + QVM code.

Nothing here re-implements the code under test: it calls
qbee.compiler.Compiler, bytes(code), str(code), qvm.module.QModule.parse and
qvm.machine.QvmMachine with a scripted, recording peripherals object and owns
the tick loop."""
import io
import os
import pickle
import struct
import sys
import traceback
import contextlib

from . import REPO

from qbee.compiler import Compiler            # noqa: E402
import qbee.compiler as _qcompiler            # noqa: E402
from qbee import qvm_codegen                  # noqa: E402,F401
from qbee.exceptions import SyntaxError as QSyntaxError, CompileError  # noqa
from qvm.module import QModule                # noqa: E402
from qvm.machine import QvmMachine            # noqa: E402
from qvm.cpu import HaltReason                # noqa: E402
from qvm.cell import CellType                 # noqa: E402
from qvm.trap import TrapCode                 # noqa: E402

ALL_CONFIGS = [(o, g) for o in (0, 1, 2) for g in (False, True)]

COMPILE_TIMEOUT = float(os.environ.get('QV_COMPILE_TIMEOUT', '30'))
RUN_TIMEOUT = float(os.environ.get('QV_RUN_TIMEOUT', '30'))


class HangGuard(BaseException):
    """Raised by the alarm when one compilation or run exceeds its wall-clock
    guard.  A guard hit is reported as *inconclusive*, never as a violation
    (it protects the campaign from a hanging case)."""


class guard:
    def __init__(self, seconds):
        self.seconds = seconds
        self.active = False

    def _fire(self, signum, frame):
        raise HangGuard()

    def __enter__(self):
        import signal
        import threading
        if self.seconds and threading.current_thread() is \
                threading.main_thread():
            self.old = signal.signal(signal.SIGALRM, self._fire)
            signal.setitimer(signal.ITIMER_REAL, self.seconds)
            self.active = True
        return self

    def __exit__(self, *exc):
        if self.active:
            import signal
            signal.setitimer(signal.ITIMER_REAL, 0)
            signal.signal(signal.SIGALRM, self.old)
        return False


def limit_memory(gb=3):
    """Cap the address space of a worker so that a runaway allocation ends
    in MemoryError inside the case instead of exhausting the sandbox."""
    try:
        import resource
        lim = int(gb * 1024 ** 3)
        resource.setrlimit(resource.RLIMIT_AS, (lim, lim))
    except Exception:
        pass
TYPE_CHAR = {
    CellType.INTEGER: '%', CellType.LONG: '&', CellType.SINGLE: '!',
    CellType.DOUBLE: '#', CellType.STRING: '$',
}

_orig_parse_string = _qcompiler.parse_string
_parse_cache = {}
_PARSE_CACHE_MAX = 8


def _cached_parse_string(text):
    """Parse once per text, hand every compilation its own copy of the tree.

    Parsing is >95 % of compile time and independent of the configuration;
    the passes mutate the tree, so each compilation gets a fresh unpickled
    copy.  Soundness of this shortcut is audited at run time by
    `audit_parse_cache` and it is never used by C06/C14/C20."""
    hit = _parse_cache.get(text)
    if hit is None:
        try:
            tree = _orig_parse_string(text)
        except BaseException as e:     # cache failures too (re-raised fresh)
            if len(_parse_cache) >= _PARSE_CACHE_MAX:
                _parse_cache.clear()
            _parse_cache[text] = ('exc', None)
            raise
        try:
            blob = pickle.dumps(tree)
        except Exception:
            # a tree that cannot be copied is not cached: every compilation
            # of this text parses afresh (the harness must not turn a
            # property of the tree into a failure of its own)
            if len(_parse_cache) >= _PARSE_CACHE_MAX:
                _parse_cache.clear()
            _parse_cache[text] = ('exc', None)
            return tree
        if len(_parse_cache) >= _PARSE_CACHE_MAX:
            _parse_cache.clear()
        _parse_cache[text] = ('ok', blob)
        return pickle.loads(blob)
    kind, blob = hit
    if kind == 'exc':
        return _orig_parse_string(text)
    return pickle.loads(blob)


def set_parse_cache(enabled):
    _qcompiler.parse_string = (
        _cached_parse_string if enabled else _orig_parse_string)
    _parse_cache.clear()


class Accepted:
    kind = 'accepted'

    def __init__(self, code, bcode, listing, module):
        self.code = code
        self.bcode = bcode
        self.listing = listing
        self.module = module
        self.sections = split_sections(bcode)

    def key(self):
        return ('accepted',)

    def __repr__(self):
        return '<Accepted %d bytes>' % len(self.bcode)


class Rejected:
    kind = 'rejected'

    def __init__(self, exc):
        self.exc = exc
        self.is_syntax = isinstance(exc, QSyntaxError)
        self.category = 'SyntaxError' if self.is_syntax else exc.code.name
        self.loc = exc.loc_start
        self.msg = str(exc)

    def key(self):
        return ('rejected', self.category)

    def __repr__(self):
        return '<Rejected %s loc=%r %s>' % (self.category, self.loc, self.msg)


class TimedOut:
    """The wall-clock guard fired (inconclusive)."""
    kind = 'timeout'

    def __init__(self, stage):
        self.stage = stage

    def key(self):
        return ('timeout',)

    def __repr__(self):
        return '<TimedOut stage=%s>' % self.stage


class HostExc:
    """An exception other than the two documented ones escaped."""
    kind = 'host_exc'

    def __init__(self, exc, stage):
        self.exc_type = type(exc).__name__
        self.stage = stage
        self.msg = str(exc)[:200]
        self.frame = innermost_repo_frame(exc)
        self.tb = ''.join(traceback.format_exception(
            type(exc), exc, exc.__traceback__))[-3000:]

    def bucket(self):
        return '%s@%s:%s' % (self.exc_type, self.frame[0], self.frame[1])

    def key(self):
        return ('host_exc', self.bucket())

    def __repr__(self):
        return '<HostExc %s stage=%s %s>' % (
            self.bucket(), self.stage, self.msg)


def innermost_repo_frame(exc):
    """(file relative to the repo, function) of the innermost traceback frame
    that lies inside the repository."""
    tb = exc.__traceback__
    best = ('?', '?')
    while tb is not None:
        fn = os.path.realpath(tb.tb_frame.f_code.co_filename)
        if fn.startswith(REPO + os.sep):
            best = (os.path.relpath(fn, REPO), tb.tb_frame.f_code.co_name)
        tb = tb.tb_next
    return best


def split_sections(bcode):
    out = {}
    i = 0
    while i + 5 <= len(bcode):
        sid = bcode[i]
        ln, = struct.unpack('>I', bcode[i + 1:i + 5])
        out[sid] = bcode[i + 5:i + 5 + ln]
        i += 5 + ln
    return out


def compile_one(text, opt, dbg):
    """Run the whole documented pipeline for one configuration."""
    try:
        with guard(COMPILE_TIMEOUT):
            return _compile_one(text, opt, dbg)
    except HangGuard:
        return TimedOut('compile')
    except MemoryError:
        return HostExc(MemoryError('memory limit of the harness'),
                       'compile')


def _compile_one(text, opt, dbg):
    try:
        compiler = Compiler(codegen_name='qvm', optimization_level=opt,
                            debug_info=dbg)
        code = compiler.compile(text)
    except (QSyntaxError, CompileError) as e:
        return Rejected(e)
    except BaseException as e:
        if isinstance(e, (KeyboardInterrupt, MemoryError, HangGuard)):
            raise
        return HostExc(e, 'compile')
    try:
        bcode = bytes(code)
    except BaseException as e:
        if isinstance(e, (KeyboardInterrupt, MemoryError, HangGuard)):
            raise
        return HostExc(e, 'bytes')
    try:
        listing = str(code)
    except BaseException as e:
        if isinstance(e, (KeyboardInterrupt, MemoryError, HangGuard)):
            raise
        return HostExc(e, 'listing')
    try:
        with contextlib.redirect_stderr(io.StringIO()):
            module = QModule.parse(bcode)
    except BaseException as e:
        if isinstance(e, (KeyboardInterrupt, MemoryError, HangGuard)):
            raise
        return HostExc(e, 'load')
    return Accepted(code, bcode, listing, module)


def compile_all(text, configs=ALL_CONFIGS):
    return {cfg: compile_one(text, *cfg) for cfg in configs}


def cfg_name(cfg):
    return 'O%d%s' % (cfg[0], '-g' if cfg[1] else '')


# ---------------------------------------------------------------------------
# execution

class ScriptExhausted(BaseException):
    """The program asked for more INPUT lines than the script holds."""


class Script:
    """Scripted device inputs.  Everything a program can ask the outside world
    comes from here, so a run is a pure function of (module, script)."""

    def __init__(self, inputs=(), rnd=(), timer=(), inkey=(),
                 rnd_default=0.5, timer_default=0.0, peek=0):
        self.inputs = list(inputs)
        self.rnd = list(rnd)
        self.timer = list(timer)
        self.inkey = list(inkey)
        self.rnd_default = rnd_default
        self.timer_default = timer_default
        self.peek = peek

    def to_json(self):
        return {'inputs': self.inputs, 'rnd': self.rnd, 'timer': self.timer,
                'inkey': self.inkey, 'rnd_default': self.rnd_default,
                'timer_default': self.timer_default, 'peek': self.peek}

    @classmethod
    def from_json(cls, d):
        return cls(**d)


class Peripherals:
    """Recording + scripted peripherals object (the `impl` of QvmMachine)."""

    def __init__(self, script):
        self.script = script
        self.events = []
        self._i_input = self._i_rnd = self._i_timer = self._i_inkey = 0
        self.n_calls = 0

    def _rec(self, *ev):
        self.n_calls += 1
        self.events.append(ev)

    # terminal
    def terminal_print(self, text):
        self._rec('print', text)

    def terminal_input(self, same_line):
        if self._i_input >= len(self.script.inputs):
            raise ScriptExhausted()
        line = self.script.inputs[self._i_input]
        self._i_input += 1
        self._rec('input', bool(same_line), line)
        return line

    def terminal_inkey(self):
        if self._i_inkey < len(self.script.inkey):
            k = self.script.inkey[self._i_inkey]
        else:
            k = ''
        self._i_inkey += 1
        self._rec('inkey', k)
        return k

    def terminal_cls(self):
        self._rec('cls')

    def terminal_color(self, fg, bg, border):
        self._rec('color', fg, bg, border)

    def terminal_locate(self, row, col, cursor, start, stop):
        self._rec('locate', row, col, cursor, start, stop)

    def terminal_set_mode(self, mode, color_switch, apage, vpage):
        self._rec('set_mode', mode, color_switch, apage, vpage)

    def terminal_width(self, columns, lines):
        self._rec('width', columns, lines)

    def terminal_view_print(self, top, bottom):
        self._rec('view_print', top, bottom)

    # rng / time
    def rng_get_next(self):
        if self._i_rnd < len(self.script.rnd):
            v = self.script.rnd[self._i_rnd]
        else:
            v = self.script.rnd_default
        self._i_rnd += 1
        self._rec('rnd_next', v)
        return v

    def rng_get_with_seed(self, seed):
        v = abs(seed) % 1.0
        self._rec('rnd_seeded', seed, v)
        return v

    def rng_seed(self, seed):
        self._rec('rnd_seed', seed)

    def time_get_time(self):
        if self._i_timer < len(self.script.timer):
            v = self.script.timer[self._i_timer]
        else:
            v = self.script.timer_default
        self._i_timer += 1
        self._rec('timer', v)
        return v

    # memory
    def memory_set_segment(self, segment):
        self._rec('set_segment', segment)

    def memory_set_default_segment(self):
        self._rec('set_default_segment')

    def memory_peek(self, offset):
        self._rec('peek', offset)
        return self.script.peek

    def memory_poke(self, offset, value):
        self._rec('poke', offset, value)

    def memory_bsave(self, filespec, offset, length):
        self._rec('bsave', filespec, offset, length)

    def memory_bload(self, filespec, offset):
        self._rec('bload', filespec, offset)

    # speaker / fs
    def pcspkr_beep(self):
        self._rec('beep')

    def pcspkr_play(self, command):
        self._rec('play', command)

    def pcspkr_sound(self, freq, duration):
        self._rec('sound', freq, duration)

    def fs_kill(self, filespec):
        self._rec('kill', filespec)


class RunResult:
    __slots__ = ('events', 'outcome', 'ticks', 'cpu', 'machine', 'stdout',
                 'impl', 'monitor_data', 'resumed_at_event')

    def trace_key(self):
        return (tuple(map(_freeze, self.events)), self.outcome[:2])


def _freeze(x):
    if isinstance(x, (list, tuple)):
        return tuple(_freeze(i) for i in x)
    if isinstance(x, float) and x != x:
        return 'nan'
    return x


def _decode_print_args(stack):
    """Decode the tagged PRINT argument list lying on the operand stack just
    before `io terminal,print` executes: the typed items of the statement."""
    try:
        n = stack[-1].value
        if not isinstance(n, int) or n < 0 or n + 1 > len(stack):
            return None
        args = stack[len(stack) - 1 - n:len(stack) - 1]
        items = []
        i = 0
        while i < len(args):
            tag = args[i].value
            if tag == 0:
                c = args[i + 1]
                items.append(('v', TYPE_CHAR.get(c.type, '?'), c.value))
                i += 2
            elif tag == 1:
                items.append(('sep', ';'))
                i += 1
            elif tag == 2:
                items.append(('sep', ','))
                i += 1
            elif tag == 3:
                c = args[i + 1]
                items.append(('using', c.value))
                i += 2
            else:
                return None
        return items
    except Exception:
        return None


def make_machine(module, script):
    impl = Peripherals(script)
    out = io.StringIO()
    with contextlib.redirect_stdout(out):
        machine = QvmMachine(module, impl=impl)
    cpu = machine.cpu
    term = cpu.devices['terminal']
    data = cpu.devices['data']
    orig_print = term._exec_print
    orig_read = data._exec_read
    orig_restore = data._exec_restore

    def exec_print():
        items = _decode_print_args(cpu.stack)
        impl.events.append(('print_items', items))
        return orig_print()

    def exec_read():
        depth = len(cpu.stack)
        orig_read()
        if len(cpu.stack) == depth and depth > 0:
            c = cpu.stack[-1]
            impl.n_calls += 1
            impl.events.append(
                ('data_read', TYPE_CHAR.get(c.type, '?'), c.value))

    def exec_restore():
        part = cpu.stack[-1].value if cpu.stack else None
        orig_restore()
        impl.n_calls += 1
        impl.events.append(('data_restore', part))

    term._exec_print = exec_print
    data._exec_read = exec_read
    data._exec_restore = exec_restore
    return machine, impl, out


def outcome_of(cpu, module, host_exc=None, budget=False, exhausted=False):
    if host_exc is not None:
        return ('host_exc', host_exc.bucket(), host_exc)
    if exhausted:
        return ('input_exhausted', None)
    if budget:
        return ('budget', None)
    if cpu.halt_reason == HaltReason.TRAP:
        line = None
        if module.debug_info is not None:
            try:
                with contextlib.redirect_stdout(io.StringIO()):
                    st = module.debug_info.find_stmt(cpu.trapped_addr, cpu)
                if st is not None:
                    line = st.source_start_line
            except Exception:
                line = None
        return ('trap', cpu.last_trap.name, cpu.trapped_addr, line)
    if cpu.halt_reason == HaltReason.INSTRUCTION:
        return ('end', 'halt')
    if cpu.halt_reason == HaltReason.END_OF_CODE:
        return ('end', 'end_of_code')
    return ('other', str(cpu.halt_reason))


def execute(module, script=None, tick_budget=200000, on_tick=None,
            before_tick=None):
    """Run a loaded module to completion under a tick budget.

    on_tick(cpu, n) is called after every instruction, before_tick(cpu, n)
    before it.  Returns a RunResult."""
    script = script or Script()
    machine, impl, out = make_machine(module, script)
    cpu = machine.cpu
    res = RunResult()
    res.monitor_data = None
    res.resumed_at_event = None
    ticks = 0
    host = None
    budget = exhausted = False
    ncode = len(module.code)
    timed_out = False
    with contextlib.redirect_stdout(out), guard(RUN_TIMEOUT):
        try:
            while True:
                if cpu.halted:
                    break
                if cpu.pc >= ncode:
                    cpu.halt_reason = HaltReason.END_OF_CODE
                    break
                if ticks >= tick_budget:
                    budget = True
                    break
                if before_tick is not None:
                    before_tick(cpu, ticks)
                cpu.tick()
                ticks += 1
                if on_tick is not None:
                    on_tick(cpu, ticks)
        except ScriptExhausted:
            exhausted = True
        except HangGuard:
            timed_out = True
        except BaseException as e:
            if isinstance(e, KeyboardInterrupt):
                raise
            host = HostExc(e, 'run')
    res.events = impl.events
    res.ticks = ticks
    res.cpu = cpu
    res.machine = machine
    res.impl = impl
    res.stdout = out.getvalue()
    res.outcome = outcome_of(cpu, module, host, budget or timed_out,
                             exhausted)
    if timed_out:
        res.outcome = ('budget', 'wall_clock_guard')
    return res


def strip_print_items(events):
    return [e for e in events if e[0] != 'print_items']
