"""Entry point: python -m qv.cli <ID> [--tier quick|thorough] [--replay F]"""
import sys


def main():
    if len(sys.argv) < 2:
        print('usage: check <ID> [--tier quick|thorough] [--replay FILE]')
        return 2
    pid = sys.argv[1]
    try:
        from qv import runner
        return runner.main('props.' + pid.lower(), sys.argv[2:])
    except SystemExit:
        raise
    except BaseException:
        import traceback
        traceback.print_exc()
        return 2


if __name__ == '__main__':
    sys.exit(main())
