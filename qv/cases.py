"""Encoding of generated program cases for samples and replay files, and
small helpers shared by the property modules."""
import base64
import pickle
import zlib

from . import ast as A
from . import render as R
from . import run as X


def encode_case(prog, script, style=None, extra=None):
    st = style or R.PLAIN
    text = R.render(prog, st).text
    d = {
        'text': text,
        'script': script,
        'style': st.to_json(),
        'ast': base64.b64encode(zlib.compress(pickle.dumps(prog))).decode(),
    }
    if extra:
        d.update(extra)
    return d


def decode_case(obj):
    prog = None
    if obj.get('ast'):
        prog = pickle.loads(zlib.decompress(base64.b64decode(obj['ast'])))
    style = R.Style.from_json(obj['style']) if obj.get('style') else R.PLAIN
    return prog, obj.get('script') or {}, style, obj.get('text')


def sample_of(text, script, **kw):
    d = {'source': text, 'script': {k: v for k, v in (script or {}).items()
                                    if v}}
    d.update(kw)
    return d


def shape_classes(prog):
    """Structural classes of a program (for histograms / non-trivial rules)."""
    cls = set()
    for s, depth in A.walk_stmts(prog.body):
        cls.add(type(s).__name__)
        if isinstance(s, A.If):
            if any(not b for _, b in s.arms):
                cls.add('empty_if_body')
            if s.else_body is not None and not s.else_body:
                cls.add('empty_else_body')
            if len(s.arms) > 1:
                cls.add('elseif')
        elif isinstance(s, A.IfLine):
            if s.els is not None:
                cls.add('ifline_else')
        elif isinstance(s, A.Select):
            if any(not b for _, b in s.cases):
                cls.add('empty_case_body')
            if depth > 0:
                cls.add('nested_select_or_inner')
        elif isinstance(s, (A.For, A.While, A.Do)):
            if not s.body:
                cls.add('empty_loop')
        elif isinstance(s, A.Proc):
            if not s.body:
                cls.add('empty_proc')
    return cls


def events_equal(a, b):
    return _norm(a) == _norm(b)


def _norm(evs):
    out = []
    for e in evs:
        out.append(tuple(_nv(x) for x in e))
    return out


def _nv(x):
    if isinstance(x, float):
        if x != x:
            return 'nan'
        return ('f', x.hex())
    if isinstance(x, (list, tuple)):
        return tuple(_nv(i) for i in x)
    return x


def first_diff(a, b):
    na, nb = _norm(a), _norm(b)
    for i in range(min(len(na), len(nb))):
        if na[i] != nb[i]:
            return i, a[i], b[i]
    if len(na) != len(nb):
        i = min(len(na), len(nb))
        return i, (a[i] if i < len(a) else None), (b[i] if i < len(b)
                                                   else None)
    return None


def outcome_key(o):
    """Comparable part of an outcome: kind and trap code (not addresses)."""
    return tuple(o[:2])
