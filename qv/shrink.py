"""Bounded AST-level shrinking (statement deletion) used instead of the
Hypothesis shrinker (hard 5-minute cap) to minimise a failing program."""
import copy

from . import ast as A


def _bodies(prog):
    """All statement lists of a program (mutable references)."""
    out = [prog.body]
    stack = list(prog.body)
    while stack:
        s = stack.pop()
        for b in A.child_bodies(s):
            out.append(b)
            stack.extend(b)
    return out


def shrink_program(prog, still_fails, max_tests=80):
    """Greedy deletion of statements while `still_fails(prog)` holds."""
    best = copy.deepcopy(prog)
    tests = 0
    changed = True
    while changed and tests < max_tests:
        changed = False
        bodies = _bodies(best)
        # try bigger bodies first
        for bi in range(len(bodies)):
            body = _bodies(best)[bi] if bi < len(_bodies(best)) else None
            if body is None:
                continue
            i = len(body) - 1
            while i >= 0 and tests < max_tests:
                cand = copy.deepcopy(best)
                cb = _bodies(cand)[bi]
                if i >= len(cb):
                    i -= 1
                    continue
                if isinstance(cb[i], (A.DefType, A.TypeDef, A.Dim, A.Const)):
                    # declarations give names their types: deleting one
                    # turns a valid program into a different (often
                    # invalid) one that may fail for another reason
                    i -= 1
                    continue
                del cb[i]
                tests += 1
                ok = False
                try:
                    ok = still_fails(cand)
                except Exception:
                    ok = False
                if ok:
                    best = cand
                    changed = True
                i -= 1
    return best
