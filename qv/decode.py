"""Own decoder of the QVM code section.

The opcode table below is a transcription of the instruction set as data
(opcode -> mnemonic, struct format of the operands, big endian); it is
deliberately not imported from qvm.instrs, so that a change there shows up as
a disagreement (C09) instead of being followed silently."""
import struct

ISA = {
    2: ('add', ''),
    3: ('and', ''),
    4: ('arridx', 'B'),
    5: ('call', 'I'),
    6: ('conv%&', ''),
    7: ('conv%!', ''),
    8: ('conv%#', ''),
    9: ('conv&%', ''),
    10: ('conv&!', ''),
    11: ('conv&#', ''),
    12: ('conv!%', ''),
    13: ('conv!&', ''),
    14: ('conv!#', ''),
    15: ('conv#%', ''),
    16: ('conv#&', ''),
    17: ('conv#!', ''),
    18: ('deref%', ''),
    19: ('div', ''),
    20: ('eq', ''),
    21: ('eqv', ''),
    22: ('exp', ''),
    23: ('frame', 'HH'),
    24: ('ge', ''),
    25: ('idiv', ''),
    26: ('imp', ''),
    27: ('io', 'BB'),
    28: ('jmp', 'I'),
    29: ('jz', 'I'),
    30: ('le', ''),
    31: ('lt', ''),
    32: ('mod', ''),
    33: ('mul', ''),
    34: ('ne', ''),
    35: ('neg', ''),
    36: ('nop', ''),
    37: ('not', ''),
    38: ('or', ''),
    39: ('push%', 'h'),
    40: ('push&', 'i'),
    41: ('push!', 'f'),
    42: ('push#', 'd'),
    43: ('push$', 'H'),
    44: ('pushm2%', ''),
    45: ('pushm2&', ''),
    46: ('pushm2!', ''),
    47: ('pushm2#', ''),
    48: ('pushm1%', ''),
    49: ('pushm1&', ''),
    50: ('pushm1!', ''),
    51: ('pushm1#', ''),
    52: ('push0%', ''),
    53: ('push0&', ''),
    54: ('push0!', ''),
    55: ('push0#', ''),
    56: ('push1%', ''),
    57: ('push1&', ''),
    58: ('push1!', ''),
    59: ('push1#', ''),
    60: ('push2%', ''),
    61: ('push2&', ''),
    62: ('push2!', ''),
    63: ('push2#', ''),
    64: ('pushrefg', 'H'),
    65: ('pushrefl', 'H'),
    66: ('readg%', 'H'),
    67: ('readg&', 'H'),
    68: ('readg!', 'H'),
    69: ('readg#', 'H'),
    70: ('readg$', 'H'),
    71: ('readg@', 'H'),
    72: ('readl%', 'H'),
    73: ('readl&', 'H'),
    74: ('readl!', 'H'),
    75: ('readl#', 'H'),
    76: ('readl$', 'H'),
    77: ('readl@', 'H'),
    78: ('readidxg%', 'HH'),
    79: ('readidxg&', 'HH'),
    80: ('readidxg!', 'HH'),
    81: ('readidxg#', 'HH'),
    82: ('readidxg$', 'HH'),
    83: ('readidxg@', 'HH'),
    84: ('readidxl%', 'HH'),
    85: ('readidxl&', 'HH'),
    86: ('readidxl!', 'HH'),
    87: ('readidxl#', 'HH'),
    88: ('readidxl$', 'HH'),
    89: ('readidxl@', 'HH'),
    90: ('refidx', ''),
    91: ('ret', ''),
    92: ('retv', ''),
    93: ('sub', ''),
    94: ('storeg', 'H'),
    95: ('storel', 'H'),
    96: ('storeidxg', 'HH'),
    97: ('storeidxl', 'HH'),
    98: ('storeref', ''),
    99: ('xor', ''),
    100: ('halt', ''),
    101: ('allocarr', 'Bi'),
    102: ('gt', ''),
    103: ('dupl', ''),
    104: ('pop', ''),
    105: ('cmp', ''),
    106: ('sign', ''),
    107: ('swap', ''),
    108: ('swapprev', ''),
    109: ('ijmp', ''),
    110: ('strlen', ''),
    111: ('int', ''),
    112: ('space', ''),
    113: ('sdbl', ''),
    114: ('ucase', ''),
    115: ('lcase', ''),
    116: ('chr', ''),
    117: ('ntos', ''),
    118: ('strleft', ''),
    119: ('strright', ''),
    120: ('strmid', ''),
    121: ('asc', ''),
    122: ('deref&', ''),
    123: ('deref!', ''),
    124: ('deref#', ''),
    125: ('deref$', ''),
    126: ('initarrg', 'HBi'),
    127: ('initarrl', 'HBi'),
    128: ('strrep', ''),
    129: ('cint', ''),
    130: ('clng', ''),
    131: ('ltrim', ''),
    132: ('rtrim', ''),
    133: ('lbound', ''),
    134: ('ubound', ''),
    135: ('strfind', ''),
    136: ('abs', ''),
    138: ('errget', ''),
    139: ('errhand', 'I'),
    141: ('errline', ''),
    142: ('errraise', ''),
    143: ('errres', ''),
    144: ('errresn', ''),
}
OPCODE_OF = {v[0]: k for k, v in ISA.items()}
JUMPS = ('jmp', 'jz', 'call')


class DecodeError(Exception):
    pass


class Instr:
    __slots__ = ('addr', 'op', 'args', 'size')

    def __init__(self, addr, op, args, size):
        self.addr, self.op, self.args, self.size = addr, op, args, size

    def __repr__(self):
        return '%04x %s %s' % (self.addr, self.op,
                               ', '.join(map(str, self.args)))


def decode(code):
    """-> list of Instr covering the code bytes exactly, or DecodeError."""
    out = []
    i = 0
    n = len(code)
    while i < n:
        ent = ISA.get(code[i])
        if ent is None:
            raise DecodeError('unknown opcode %d at %d' % (code[i], i))
        op, f = ent
        size = 1 + struct.calcsize('>' + f)
        if i + size > n:
            raise DecodeError('truncated %s at %d' % (op, i))
        args = list(struct.unpack('>' + f, code[i + 1:i + size])) if f else []
        out.append(Instr(i, op, args, size))
        i += size
    return out


def starts(instrs):
    return {ins.addr for ins in instrs}


def routines(instrs):
    """[(entry_addr, end_addr)] for every routine: a routine starts at a
    `frame` instruction and extends to the next `frame` (or the end)."""
    frames = [ins.addr for ins in instrs if ins.op == 'frame']
    end = instrs[-1].addr + instrs[-1].size if instrs else 0
    out = []
    for k, a in enumerate(frames):
        out.append((a, frames[k + 1] if k + 1 < len(frames) else end))
    return out
