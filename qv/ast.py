"""AST of the reference subset (own classes; never qbee's node classes).

Scalar types are the suffix characters '%' '&' '!' '#' '$'; a record type is
the string 'T:<name>'."""

NUMERIC = '%&!#'
RANK = {'%': 0, '&': 1, '!': 2, '#': 3}
TYPE_WORD = {'%': 'INTEGER', '&': 'LONG', '!': 'SINGLE', '#': 'DOUBLE',
             '$': 'STRING'}


def is_num(t):
    return t in NUMERIC


def is_rec(t):
    return isinstance(t, str) and t.startswith('T:')


def wider(a, b):
    return a if RANK[a] >= RANK[b] else b


class Node:
    __slots__ = ()

    def __repr__(self):
        return '%s(%s)' % (type(self).__name__, ', '.join(
            '%s=%r' % (s, getattr(self, s, None)) for s in self.__slots__))


# ---------------------------------------------------------------- expressions

class Num(Node):
    """Numeric literal.  `text` is the exact spelling used in the source."""
    __slots__ = ('t', 'v', 'text')

    def __init__(self, t, v, text=None):
        self.t, self.v, self.text = t, v, text


class Str(Node):
    __slots__ = ('v', 't')

    def __init__(self, v):
        self.v, self.t = v, '$'


class LV(Node):
    """Variable reference: name, subscripts, record fields; t = result type."""
    __slots__ = ('name', 'idx', 'fields', 't')

    def __init__(self, name, idx=(), fields=(), t=None):
        self.name, self.idx, self.fields, self.t = (
            name, list(idx), list(fields), t)


class ConstRef(Node):
    """Reference to a CONST name; `v` is the AST of its value expression."""
    __slots__ = ('name', 't')

    def __init__(self, name, t):
        self.name, self.t = name, t


class Bin(Node):
    __slots__ = ('op', 'l', 'r', 't')

    def __init__(self, op, l, r, t):
        self.op, self.l, self.r, self.t = op, l, r, t


class Un(Node):
    __slots__ = ('op', 'e', 't')

    def __init__(self, op, e, t):
        self.op, self.e, self.t = op, e, t


class BCall(Node):
    """Built-in function call."""
    __slots__ = ('fn', 'args', 't')

    def __init__(self, fn, args, t):
        self.fn, self.args, self.t = fn, list(args), t


class FCall(Node):
    """User FUNCTION call.  args: expressions; an LV argument is passed by
    reference, ArrPass passes a whole array, ByVal forces a copy `(x)`."""
    __slots__ = ('name', 'args', 't')

    def __init__(self, name, args, t):
        self.name, self.args, self.t = name, list(args), t


class Paren(Node):
    __slots__ = ('e', 't')

    def __init__(self, e):
        self.e, self.t = e, e.t


class ArrPass(Node):
    __slots__ = ('name', 't')

    def __init__(self, name, t=None):
        self.name, self.t = name, t


# ----------------------------------------------------------------- statements

class Stmt(Node):
    __slots__ = ()
    simple = True      # a simple (non-block) statement


class Assign(Stmt):
    __slots__ = ('lv', 'e')

    def __init__(self, lv, e):
        self.lv, self.e = lv, e


class RetAssign(Stmt):
    """Assignment to the FUNCTION name (sets the return value)."""
    __slots__ = ('fname', 'e', 't')

    def __init__(self, fname, e, t):
        self.fname, self.e, self.t = fname, e, t


class Print(Stmt):
    """items: expressions and the separator strings ';' and ','."""
    __slots__ = ('items', 'using')

    def __init__(self, items, using=None):
        self.items, self.using = list(items), using


class If(Stmt):
    """Block IF.  arms = [(cond, body), ...]; else_body None or list."""
    __slots__ = ('arms', 'else_body')
    simple = False

    def __init__(self, arms, else_body=None):
        self.arms, self.else_body = list(arms), else_body


class IfLine(Stmt):
    """Single-line IF c THEN s1: s2 [ELSE s3]."""
    __slots__ = ('cond', 'then', 'els')
    simple = False

    def __init__(self, cond, then, els=None):
        self.cond, self.then, self.els = cond, list(then), els


class For(Stmt):
    __slots__ = ('var', 'a', 'b', 'step', 'body')
    simple = False

    def __init__(self, var, a, b, step, body):
        self.var, self.a, self.b, self.step, self.body = (
            var, a, b, step, list(body))


class While(Stmt):
    __slots__ = ('cond', 'body')
    simple = False

    def __init__(self, cond, body):
        self.cond, self.body = cond, list(body)


class Do(Stmt):
    """kind: forever | do_while | do_until | loop_while | loop_until."""
    __slots__ = ('kind', 'cond', 'body')
    simple = False

    def __init__(self, kind, cond, body):
        self.kind, self.cond, self.body = kind, cond, list(body)


class Select(Stmt):
    """cases = [(clauses, body)]; clause = ('v', e) | ('range', a, b) |
    ('is', op, e); else_body None or list."""
    __slots__ = ('e', 'cases', 'else_body')
    simple = False

    def __init__(self, e, cases, else_body=None):
        self.e, self.cases, self.else_body = e, list(cases), else_body


class LabelDef(Stmt):
    """A label or line number at the start of a line.  name: str or int."""
    __slots__ = ('name',)

    def __init__(self, name):
        self.name = name


class Goto(Stmt):
    __slots__ = ('target',)

    def __init__(self, target):
        self.target = target


class Gosub(Stmt):
    __slots__ = ('target',)

    def __init__(self, target):
        self.target = target


class Return(Stmt):
    __slots__ = ()


class CallSub(Stmt):
    __slots__ = ('name', 'args')

    def __init__(self, name, args):
        self.name, self.args = name, list(args)


class Decl(Node):
    """One declared name.  t: element/scalar type; dims: None or list of
    (lo_expr or None, hi_expr); as_clause: written `name AS type`."""
    __slots__ = ('name', 't', 'dims', 'as_clause')

    def __init__(self, name, t, dims=None, as_clause=False):
        self.name, self.t, self.dims, self.as_clause = (
            name, t, dims, as_clause)


class Dim(Stmt):
    """kind: dim | shared | static."""
    __slots__ = ('kind', 'decls')

    def __init__(self, kind, decls):
        self.kind, self.decls = kind, list(decls)


class Const(Stmt):
    __slots__ = ('name', 'e')

    def __init__(self, name, e):
        self.name, self.e = name, e


class TypeDef(Stmt):
    __slots__ = ('name', 'fields')
    simple = False

    def __init__(self, name, fields):
        self.name, self.fields = name, list(fields)


class DefType(Stmt):
    """kw: DEFINT..., ranges: [(a, b or None)] ; t: the type char."""
    __slots__ = ('t', 'ranges')

    def __init__(self, t, ranges):
        self.t, self.ranges = t, list(ranges)


class Data(Stmt):
    """raw: the exact text after the DATA keyword."""
    __slots__ = ('raw',)

    def __init__(self, raw):
        self.raw = raw


class Read(Stmt):
    __slots__ = ('lvs',)

    def __init__(self, lvs):
        self.lvs = list(lvs)


class Restore(Stmt):
    __slots__ = ('target',)

    def __init__(self, target=None):
        self.target = target


class Input(Stmt):
    """prompt: None or str; sep: ';' or ',' (after the prompt)."""
    __slots__ = ('sameline', 'prompt', 'sep', 'lvs')

    def __init__(self, sameline, prompt, sep, lvs):
        self.sameline, self.prompt, self.sep, self.lvs = (
            sameline, prompt, sep, list(lvs))


class OnError(Stmt):
    """target: label name/int, 'next' (RESUME NEXT) or 0 (GOTO 0)."""
    __slots__ = ('target',)

    def __init__(self, target):
        self.target = target


class Resume(Stmt):
    __slots__ = ('next',)

    def __init__(self, next):
        self.next = next


class End(Stmt):
    __slots__ = ()


class Exit(Stmt):
    """what: FOR | DO | SUB | FUNCTION."""
    __slots__ = ('what',)

    def __init__(self, what):
        self.what = what


class Dev(Stmt):
    """Device statement.  kind names the statement, args are expressions or
    None for omitted optional arguments."""
    __slots__ = ('kind', 'args')

    def __init__(self, kind, args=()):
        self.kind, self.args = kind, list(args)


class Rem(Stmt):
    __slots__ = ('text',)

    def __init__(self, text):
        self.text = text


class Raw(Stmt):
    """Verbatim statement text (fault injection); `alone`: own line."""
    __slots__ = ('text', 'alone')

    def __init__(self, text, alone=True):
        self.text, self.alone = text, alone


class Param(Node):
    """t element type; is_array for `a()` parameters; as_clause spelling."""
    __slots__ = ('name', 't', 'is_array', 'as_clause')

    def __init__(self, name, t, is_array=False, as_clause=False):
        self.name, self.t, self.is_array, self.as_clause = (
            name, t, is_array, as_clause)


class Proc(Stmt):
    """SUB or FUNCTION.  kind 'sub'|'function'; name includes the type suffix
    for functions; rt = return type."""
    __slots__ = ('kind', 'name', 'params', 'static', 'body', 'rt')
    simple = False

    def __init__(self, kind, name, params, static, body, rt=None):
        self.kind, self.name, self.params, self.static, self.body, self.rt = (
            kind, name, list(params), static, list(body), rt)


class Program(Node):
    __slots__ = ('body',)

    def __init__(self, body):
        self.body = list(body)


def walk_stmts(body):
    """Yield every statement in a body, depth first, with nesting depth."""
    stack = [(s, 0) for s in reversed(body)]
    while stack:
        s, d = stack.pop()
        yield s, d
        for sub in reversed(child_bodies(s)):
            for c in reversed(sub):
                stack.append((c, d + 1))


def child_bodies(s):
    if isinstance(s, If):
        out = [b for _, b in s.arms]
        if s.else_body is not None:
            out.append(s.else_body)
        return out
    if isinstance(s, IfLine):
        return [s.then] + ([s.els] if s.els is not None else [])
    if isinstance(s, (For, While, Do, Proc)):
        return [s.body]
    if isinstance(s, Select):
        out = [b for _, b in s.cases]
        if s.else_body is not None:
            out.append(s.else_body)
        return out
    return []
