"""Comparison of a real run against the reference interpreter R."""
from . import ref as RF
from . import trace as T
from . import run as X


def vm_detail(module, rr):
    """Opcode at the trapped address (root-cause key for unexpected traps)."""
    if rr.outcome[0] != 'trap':
        return ''
    try:
        from qvm.instrs import op_code_to_instr
        addr = rr.outcome[2]
        return op_code_to_instr[module.code[addr]].op
    except Exception:
        return '?'


def compare(prog, script, rendered, module, rr, dev=(), ref_result=None):
    """-> (verdict, bucket, detail, interp)

    verdict: 'agree' | 'inconclusive:<why>' | 'mismatch'."""
    if ref_result is None:
        it = RF.Interp(prog, script, rendered, dev=dev)
        evs, out = it.run()
    else:
        it, evs, out = ref_result
    if out[0] in ('unsupported', 'budget', 'input_exhausted'):
        return 'inconclusive:ref_' + out[0], None, {'why': out}, it
    if rr.outcome[0] in ('budget', 'input_exhausted'):
        return 'inconclusive:vm_' + rr.outcome[0], None, None, it
    vm = T.normalise(rr.events)
    rf = T.norm_ref(evs)
    d = T.diff(vm, rf)
    vo = rr.outcome
    if vo[0] == 'host_exc':
        return 'mismatch', 'host_exc:' + vo[1], {
            'vm': vo[:2], 'ref': _o(out, rendered), 'tb': vo[2].tb[-1500:]}, it
    if d is not None:
        # a trace difference; find out whether the VM simply stopped early
        i, ve, re_ = d
        if ve is None and vo[0] == 'trap':
            exp = 'end' if out[0] == 'end' else RF.TRAP_OF[out[1]]
            b = 'trap:%s@%s(expected %s)' % (vo[1], vm_detail(module, rr),
                                             'more output')
            return 'mismatch', b, {
                'index': i, 'vm_outcome': vo[:4], 'ref_next': re_,
                'ref_outcome': _o(out, rendered)}, it
        kind = (ve or re_)[0]
        if ve is not None and re_ is not None and ve[0] == re_[0] == 'PRINT':
            b = 'print:' + _print_diff(ve[1], re_[1])
        else:
            b = 'event:%s/%s' % (ve[0] if ve else None,
                                 re_[0] if re_ else None)
        return 'mismatch', b, {'index': i, 'vm': ve, 'ref': re_,
                               'vm_outcome': vo[:4],
                               'ref_outcome': _o(out, rendered)}, it
    # same trace; compare outcomes
    if out[0] == 'end':
        if vo[0] == 'end':
            return 'agree', None, None, it
        b = 'outcome:%s:%s@%s/end' % (vo[0], vo[1], vm_detail(module, rr))
        return 'mismatch', b, {'vm_outcome': vo[:4]}, it
    want = RF.TRAP_OF[out[1]]
    if vo[0] != 'trap' or vo[1] != want:
        b = 'outcome:%s:%s/%s' % (vo[0], vo[1], out[1])
        return 'mismatch', b, {'vm_outcome': vo[:4],
                               'ref_outcome': _o(out, rendered)}, it
    # same error class; same statement?
    if module.debug_info is not None and rendered is not None and \
            out[2] is not None and vo[3] is not None:
        pos = rendered.pos.get(id(out[2]))
        if pos is not None:
            lines = {v for k, v in pos.items()
                     if not k.startswith('idx_')}
            if vo[3] not in lines and not (
                    min(lines) <= vo[3] <= max(lines)):
                b = 'errline:%s' % out[1]
                return 'mismatch', b, {'vm_line': vo[3],
                                       'ref_lines': sorted(lines)}, it
    return 'agree', None, None, it


def _o(out, rendered):
    if out[0] == 'error':
        ln = None
        if rendered is not None and out[2] is not None:
            p = rendered.pos.get(id(out[2]))
            ln = p.get('line') if p else None
        return ('error', out[1], ln)
    return out


def _print_diff(a, b):
    """Kind of the first differing PRINT item."""
    if a is None or b is None:
        return 'undecodable'
    for x, y in zip(a, b):
        if T.canon([x]) != T.canon([y]):
            if x[0] != y[0]:
                return 'shape'
            if x[0] == 'v':
                if x[1] != y[1]:
                    return 'type:%s/%s' % (x[1], y[1])
                return 'value:%s' % x[1]
            return x[0]
    return 'length'
