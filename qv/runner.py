"""Runner: sharding over processes, seeds, collect-then-report, evidence,
known findings, replay files.

A property module (props/cNN.py) provides:

    ID, LEVEL, RULE, ASSUMPTIONS
    def configure(tier, avoid) -> dict with 'examples' (Hypothesis cases per
        run, all shards together) and anything check() needs
    def strategy(cfg) -> Hypothesis strategy of cases            (optional)
    def items(cfg) -> list of work items of a finite domain      (optional)
    def check(case, cfg) -> Result                                (one case)
    def check_item(item, cfg) -> Result
    def encode(case) / decode(obj): JSON-able form for replay files
    def replay(obj, cfg) -> Result

Result = dict(key=str, nontrivial=bool, classes=[str], failures=[Failure],
              inconclusive=str|None, sample=obj|None)
Failure = dict(bucket=str, detail=obj, case=obj(encoded))
"""
import hashlib
import importlib
import json
import multiprocessing
import os
import sys
import time
import traceback

from . import ROOT

NSHARDS = int(os.environ.get('VERIF_SHARDS', '16'))


def verif_seed():
    try:
        return int(os.environ.get('VERIF_SEED', '1'))
    except ValueError:
        return 1


def derive_seed(pid, seed, shard, extra=''):
    h = hashlib.sha256(('%s:%d:%d:%s' % (pid, seed, shard, extra)).encode())
    return int(h.hexdigest()[:12], 16)


def digest(obj):
    if not isinstance(obj, str):
        obj = json.dumps(obj, sort_keys=True, default=repr)
    return hashlib.sha1(obj.encode('utf-8', 'surrogatepass')).hexdigest()[:16]


# --------------------------------------------------------------- findings

def load_findings(pid):
    """Entries of known_findings.txt that concern property `pid`.

    Line format (one finding per line, '#' starts a comment line):
        known: property=<id> <what fails> :: {json}
        fixed: property=<id> <commit> <what failed> :: {json}
    json: id, properties (all properties the defect touches), witness
    (replay file), avoid (generator switches), buckets (failure buckets the
    finding explains).  The file is never written at run time."""
    path = os.path.join(ROOT, 'known_findings.txt')
    out = []
    if os.path.exists(path):
        with open(path) as f:
            for line in f:
                line = line.strip()
                if not line or line.startswith('#'):
                    continue
                head, _, js = line.partition(' :: ')
                state, _, rest = head.partition(': ')
                e = json.loads(js) if js else {}
                e['state'] = state.strip()
                words = rest.split(' ', 2 if e['state'] == 'fixed' else 1)
                e['property'] = words[0].split('=', 1)[1]
                if e['state'] == 'fixed':
                    e['commit'] = words[1]
                    e['what'] = words[2] if len(words) > 2 else ''
                else:
                    e['what'] = words[1] if len(words) > 1 else ''
                props = e.get('properties') or [e['property']]
                if pid in props:
                    out.append(e)
    return out


def avoid_switches(findings):
    s = set()
    for e in findings:
        if e.get('state') == 'known':
            s.update(e.get('avoid', []))
    return s


# ------------------------------------------------------------------ shards

class Acc:
    """Per-shard accumulator (merged in the parent)."""

    def __init__(self):
        self.evaluations = 0
        self.nontrivial_keys = set()
        self.all_keys = set()
        self.classes = {}
        self.inconclusive = {}
        self.failures = {}        # bucket -> (count, first failure)
        self.samples = []
        self.errors = []

    def add(self, res, max_samples=3):
        self.evaluations += 1 + int(res.get('extra_evals', 0))
        k = res.get('key')
        if k is not None:
            self.all_keys.add(k)
            if res.get('nontrivial'):
                self.nontrivial_keys.add(k)
        for kk in res.get('nontrivial_keys', ()):
            self.nontrivial_keys.add(kk)
            self.all_keys.add(kk)
        for c, n in (res.get('class_counts') or {}).items():
            self.classes[c] = self.classes.get(c, 0) + n
        for c in res.get('classes', ()):
            self.classes[c] = self.classes.get(c, 0) + 1
        inc = res.get('inconclusive')
        if inc:
            self.inconclusive[inc] = self.inconclusive.get(inc, 0) + 1
        for f in res.get('failures', ()):
            b = f['bucket']
            if os.environ.get('QV_DUMP_FAILURES'):
                with open(os.environ['QV_DUMP_FAILURES'], 'a') as fh:
                    fh.write(json.dumps({
                        'bucket': b, 'detail': f.get('detail'),
                        'text': (f.get('case') or {}).get('text')},
                        default=repr) + '\n')
            if b in self.failures:
                n, first = self.failures[b]
                # keep the smallest failing case seen
                if _size(f) < _size(first):
                    first = f
                self.failures[b] = (n + 1, first)
            else:
                self.failures[b] = (1, f)
        if res.get('sample') is not None and (
                res.get('nontrivial') or res.get('nontrivial_keys')) and \
                len(self.samples) < max_samples:
            self.samples.append(res['sample'])

    def merge(self, other):
        self.evaluations += other.evaluations
        self.nontrivial_keys |= other.nontrivial_keys
        self.all_keys |= other.all_keys
        for k, v in other.classes.items():
            self.classes[k] = self.classes.get(k, 0) + v
        for k, v in other.inconclusive.items():
            self.inconclusive[k] = self.inconclusive.get(k, 0) + v
        for b, (n, f) in other.failures.items():
            if b in self.failures:
                n0, f0 = self.failures[b]
                self.failures[b] = (n0 + n, f0 if _size(f0) <= _size(f)
                                    else f)
            else:
                self.failures[b] = (n, f)
        self.samples.extend(other.samples)
        self.errors.extend(other.errors)


def _size(f):
    try:
        return len(json.dumps(f.get('case'), default=repr))
    except Exception:
        return 10 ** 9


def _shard_main(args):
    modname, tier, seed, shard, nshards, avoid = args
    os.environ.setdefault('PYTHONHASHSEED', '0')
    acc = Acc()
    try:
        from . import run as _X
        _X.limit_memory()
        mod = importlib.import_module(modname)
        cfg = mod.configure(tier, set(avoid))
        if os.environ.get('QV_EXAMPLES'):
            cfg['examples'] = int(os.environ['QV_EXAMPLES'])
        cfg['shard'] = shard
        cfg['nshards'] = nshards
        cfg['seed'] = seed
        if hasattr(mod, 'setup_worker'):
            mod.setup_worker(cfg)
        # finite part
        if hasattr(mod, 'items'):
            items = mod.items(cfg)
            for it in items[shard::nshards]:
                try:
                    acc.add(mod.check_item(it, cfg))
                except Exception:
                    acc.errors.append(traceback.format_exc()[-2000:])
                    if len(acc.errors) > 5:
                        break
        # generated part
        if hasattr(mod, 'strategy') and cfg.get('examples', 0) > 0:
            n = cfg['examples'] // nshards + (
                1 if shard < cfg['examples'] % nshards else 0)
            if n > 0:
                _run_hypothesis(mod, cfg, n, derive_seed(
                    mod.ID, seed, shard), acc)
        if hasattr(mod, 'finish_shard'):
            for res in mod.finish_shard(cfg):
                acc.add(res)
    except Exception:
        acc.errors.append(traceback.format_exc()[-3000:])
    return acc


def _run_hypothesis(mod, cfg, n, hseed, acc):
    from hypothesis import given, settings, seed as hyp_seed, HealthCheck, \
        Phase

    strat = mod.strategy(cfg)

    @hyp_seed(hseed)
    @settings(max_examples=n, database=None, deadline=None,
              derandomize=False, report_multiple_bugs=False,
              suppress_health_check=list(HealthCheck),
              phases=[Phase.generate])
    @given(strat)
    def run(case):
        try:
            res = mod.check(case, cfg)
        except Exception:
            acc.errors.append(traceback.format_exc()[-3000:])
            if len(acc.errors) > 5:
                raise
            return
        acc.add(res)

    try:
        run()
    except Exception:
        acc.errors.append(traceback.format_exc()[-3000:])


def run_shards(modname, tier, seed, avoid, nshards=None):
    nshards = nshards or NSHARDS
    args = [(modname, tier, seed, k, nshards, sorted(avoid))
            for k in range(nshards)]
    total = Acc()
    if nshards == 1:
        total.merge(_shard_main(args[0]))
        return total
    ctx = multiprocessing.get_context('spawn')
    with ctx.Pool(nshards) as pool:
        for acc in pool.imap_unordered(_shard_main, args):
            total.merge(acc)
    return total


# -------------------------------------------------------------------- main

def write_evidence(pid, tier, seed, level, coverage, wall, violations,
                   assumptions):
    os.makedirs(os.path.join(ROOT, 'evidence'), exist_ok=True)
    path = os.path.join(ROOT, 'evidence', '%s.json' % pid)
    doc = {
        'property_id': pid, 'tier': tier, 'seed': seed, 'level': level,
        'coverage': coverage, 'assumptions': list(assumptions),
        'wall_s': round(wall, 2), 'violations': violations,
    }
    tmp = path + '.tmp'
    with open(tmp, 'w') as f:
        json.dump(doc, f, indent=1, sort_keys=True, default=repr)
    os.replace(tmp, path)


def write_replay(pid, bucket, failure):
    d = os.path.join(ROOT, 'replays', pid)
    os.makedirs(d, exist_ok=True)
    name = 'new_' + digest(bucket) + '.json'
    path = os.path.join(d, name)
    with open(path, 'w') as f:
        json.dump({'property': pid, 'bucket': bucket,
                   'detail': failure.get('detail'),
                   'case': failure.get('case')}, f, indent=1, default=repr)
    return os.path.relpath(path, ROOT)


def main(modname, argv):
    import argparse
    ap = argparse.ArgumentParser()
    ap.add_argument('--tier', default=os.environ.get('VERIF_TIER', 'quick'),
                    choices=['quick', 'thorough'])
    ap.add_argument('--replay', default=None)
    ap.add_argument('--shards', type=int, default=None)
    ap.add_argument('--no-avoid', action='store_true',
                    help='ignore the avoid switches of known findings')
    a = ap.parse_args(argv)
    mod = importlib.import_module(modname)
    pid = mod.ID
    seed = verif_seed()
    t0 = time.time()

    findings = load_findings(pid)
    avoid = set() if a.no_avoid else avoid_switches(findings)
    cfg = mod.configure(a.tier, set(avoid))
    cfg.update(shard=0, nshards=1, seed=seed)
    if hasattr(mod, 'setup_worker'):
        mod.setup_worker(cfg)

    if a.replay:
        with open(os.path.join(ROOT, a.replay)
                  if not os.path.isabs(a.replay) else a.replay) as f:
            obj = json.load(f)
        res = mod.replay(obj['case'], cfg)
        fails = res.get('failures', [])
        if fails:
            for fl in fails:
                print('replay: bucket=%s detail=%s' % (
                    fl['bucket'], json.dumps(fl.get('detail'),
                                             default=repr)[:1500]))
            print('VIOLATION property=%s replay=%s' % (pid, a.replay))
            return 1
        print('replay: property held on %s' % a.replay)
        return 0

    violations = []
    known_reproduced = []
    # 1. the seconds-long replay tier: committed witnesses
    replay_dir = os.path.join(ROOT, 'replays', pid)
    witness_of = {}
    for e in findings:
        w = e.get('witness')
        if w:
            witness_of[os.path.normpath(w)] = e
    n_replayed = 0
    if os.path.isdir(replay_dir):
        for name in sorted(os.listdir(replay_dir)):
            if not name.endswith('.json') or name.startswith('new_'):
                continue
            rel = os.path.normpath(os.path.join('replays', pid, name))
            with open(os.path.join(ROOT, rel)) as f:
                obj = json.load(f)
            try:
                res = mod.replay(obj['case'], cfg)
            except Exception:
                print('HARNESS-ERROR replay %s\n%s' % (
                    rel, traceback.format_exc()[-2000:]))
                return 2
            n_replayed += 1
            fails = res.get('failures', [])
            e = witness_of.get(rel)
            if fails:
                if e is not None and e.get('state') == 'known':
                    known_reproduced.append(e)
                else:
                    violations.append((fails[0]['bucket'], rel))
    for e in known_reproduced:
        print('KNOWN-FINDING: property=%s %s' % (pid, e.get('what')))

    # 2. the campaign
    acc = run_shards(modname, a.tier, seed, avoid, a.shards)
    if acc.errors:
        print('HARNESS-ERROR in %d place(s); first:\n%s' % (
            len(acc.errors), acc.errors[0]))
        return 2
    known_buckets = {}
    for e in findings:
        if e.get('state') == 'known':
            for b in e.get('buckets', []):
                known_buckets[b] = e
    n_known_hits = 0
    for bucket, (n, first) in sorted(acc.failures.items()):
        e = known_buckets.get(bucket)
        if e is not None:
            n_known_hits += n
            if e not in known_reproduced:
                known_reproduced.append(e)
                print('KNOWN-FINDING: property=%s %s' % (pid, e.get('what')))
            continue
        if hasattr(mod, 'shrink') and len(violations) < 4:
            try:
                first = mod.shrink(first, cfg)
            except Exception:
                pass
        path = write_replay(pid, bucket, first)
        violations.append((bucket, path))

    wall = time.time() - t0
    coverage = {
        'evaluations': acc.evaluations,
        'distinct_nontrivial': len(acc.nontrivial_keys),
        'distinct_cases': len(acc.all_keys),
        'rule': mod.RULE,
        'samples': acc.samples[:8],
        'class_histogram': dict(sorted(acc.classes.items())),
        'inconclusive': acc.inconclusive,
        'replayed_witnesses': n_replayed,
        'known_findings_reproduced': [e.get('id') for e in known_reproduced],
        'known_bucket_hits': n_known_hits,
        'avoid_switches': sorted(avoid),
        'bounds': cfg.get('bounds'),
        'failure_buckets': {b: n for b, (n, _) in acc.failures.items()},
        'exhaustive': bool(cfg.get('exhaustive', False)),
    }
    if not coverage['samples']:
        coverage['samples'] = ['(no non-trivial case in this run)']
    write_evidence(pid, a.tier, seed, mod.LEVEL, coverage, wall,
                   len(violations), getattr(mod, 'ASSUMPTIONS', []))
    print('%s tier=%s seed=%d evaluations=%d distinct_nontrivial=%d '
          'buckets=%d wall=%.1fs' % (
              pid, a.tier, seed, acc.evaluations,
              len(acc.nontrivial_keys), len(acc.failures), wall))
    if violations:
        for bucket, path in violations:
            print('  bucket: %s' % bucket)
            print('VIOLATION property=%s replay=%s' % (pid, path))
        return 1
    return 0
