"""Run-time monitors over the real QvmCpu (history invariants of C03/C07).

A Monitor is attached to execute() through before_tick/on_tick and looks at
the live machine between instructions; nothing in /repo is modified."""
from . import decode as D

MACHINE_TRAPS = {
    'TYPE_MISMATCH', 'STACK_EMPTY', 'INVALID_OP_CODE',
    'INVALID_LOCAL_VAR_IDX', 'INVALID_GLOBAL_VAR_IDX', 'NULL_REFERENCE',
    'INVALID_DIMENSIONS', 'UNINITIALIZED_MEM', 'DEVICE_NOT_AVAILABLE',
}
NOT_STATEMENTS = {
    # clause nodes
    'SimpleCaseClause', 'RangeCaseClause', 'CompareCaseClause',
    'ArrayDimRange', 'VarDeclClause', 'AnyVarDeclClause', 'PrintSep',
    # block start / end statements: their records are synthesised from the
    # children's ranges (their correctness is C11's business)
    'IfBeginStmt', 'ElseStmt', 'ElseIfStmt', 'EndIfStmt', 'DoStmt',
    'LoopStmt', 'ForStmt', 'NextStmt', 'WhileStmt', 'WendStmt',
    'SelectStmt', 'CaseStmt', 'CaseElseStmt', 'EndSelectStmt', 'SubStmt',
    'EndSubStmt', 'FunctionStmt', 'EndFunctionStmt', 'TypeStmt',
    'EndTypeStmt', 'IfBlock', 'LoopBlock', 'ForBlock', 'WhileBlock',
    'SelectBlock', 'SubBlock', 'FunctionBlock', 'TypeBlock',
}
TYPE_OF_CHAR = {'%': 'INTEGER', '&': 'LONG', '!': 'SINGLE', '#': 'DOUBLE',
                '$': 'STRING', '@': 'REFERENCE'}


class SafetyMonitor:
    """C03 oracle A.  Collects violations (kind, detail) without stopping."""

    def __init__(self, module, check_depth=True, through_errors=False):
        self.through_errors = through_errors
        self.module = module
        self.instrs = D.decode(module.code)
        self.at = {i.addr: i for i in self.instrs}
        self.starts = set(self.at)
        self.end = len(module.code)
        self.routines = D.routines(self.instrs)
        self.violations = []
        self.cell_types = {}       # (id(segment), idx) -> type name
        self.keep = []             # keeps segments alive (no id reuse)
        self.frame_base = {}       # id(frame) -> [base depth, active gosubs]
        self.stmt_starts = set()
        self.check_depth = check_depth and module.debug_info is not None
        if self.check_depth:
            try:
                for rec in module.debug_info.stmts:
                    # records of clause nodes (CASE clauses, DIM ranges,
                    # declarations, PRINT separators) are not source
                    # statements
                    if type(rec.node).__name__ in NOT_STATEMENTS:
                        continue
                    if rec.end_offset > rec.start_offset:
                        self.stmt_starts.add(rec.start_offset)
            except Exception:
                self.check_depth = False
        self.convs = 0
        self.features = set()
        self.cur = None
        self.disabled_depth = False

    def flag(self, kind, **detail):
        if len(self.violations) < 5:
            self.violations.append((kind, detail))

    # -------------------------------------------------------------- hooks
    def before(self, cpu, n):
        pc = cpu.pc
        ins = self.at.get(pc)
        self.cur = ins
        if ins is None:
            return
        op = ins.op
        if op.startswith('conv'):
            self.convs += 1
        elif op == 'call':
            self.features.add('call')
        elif op == 'arridx':
            self.features.add('array')
        elif op == 'io':
            self.features.add('io')
        # typed reads must find a cell of their type
        t = TYPE_OF_CHAR.get(op[-1])
        if t is not None:
            cell = None
            try:
                if op.startswith('readl') or op.startswith('readidxl'):
                    idx = ins.args[0] + (ins.args[1] if len(ins.args) > 1
                                         else 0)
                    if cpu.cur_frame is not None and \
                            idx < len(cpu.cur_frame.cells):
                        cell = cpu.cur_frame.cells[idx]
                elif op.startswith('readg') or op.startswith('readidxg'):
                    idx = ins.args[0] + (ins.args[1] if len(ins.args) > 1
                                         else 0)
                    if idx < len(cpu.globals_segment.cells):
                        cell = cpu.globals_segment.cells[idx]
                elif op.startswith('deref') and cpu.stack:
                    ref = cpu.stack[-1].value
                    seg = getattr(ref, 'segment', None)
                    if seg is not None and ref.index < len(seg.cells):
                        cell = seg.cells[ref.index]
            except Exception:
                cell = None
            if cell is not None and cell.type.name != t:
                self.flag('typed_read', op=op, addr=pc,
                          found=cell.type.name)
        if self.check_depth and not self.disabled_depth and \
                pc in self.stmt_starts and cpu.cur_frame is not None and \
                op != 'frame' and not cpu.error_handler_active:
            fb = self.frame_base.get(id(cpu.cur_frame))
            if fb is not None and len(cpu.stack) != fb[0] + fb[1]:
                self.flag('stack_depth_at_statement', addr=pc,
                          depth=len(cpu.stack), expected=fb[0] + fb[1])

    def after(self, cpu, n):
        ins = self.cur
        pc = cpu.pc
        if not cpu.halted:
            if pc not in self.starts and pc != self.end:
                self.flag('jump_into_instruction', pc=pc,
                          from_op=ins.op if ins else None)
            fr = cpu.cur_frame
            if fr is not None and pc != self.end:
                inside = False
                for a, b in self.routines:
                    if a == fr.code_start - 5:
                        inside = a <= pc < b
                        break
                tgt = self.at.get(pc)
                if not inside and not (tgt is not None and
                                       tgt.op == 'frame') and \
                        not (ins is not None and ins.op in ('ret', 'retv')):
                    self.flag('pc_outside_routine', pc=pc,
                              from_op=ins.op if ins else None)
        if ins is None:
            return
        op = ins.op
        if op == 'frame' and cpu.cur_frame is not None:
            self.keep.append(cpu.cur_frame)
            self.frame_base[id(cpu.cur_frame)] = [len(cpu.stack), 0]
        elif op == 'call':
            tgt = self.at.get(cpu.pc)
            if tgt is not None and tgt.op != 'frame' and \
                    cpu.cur_frame is not None:
                fb = self.frame_base.get(id(cpu.cur_frame))
                if fb is not None:
                    fb[1] += 1
                self.features.add('gosub')
        elif op == 'ijmp' and cpu.cur_frame is not None:
            fb = self.frame_base.get(id(cpu.cur_frame))
            if fb is not None:
                fb[1] -= 1
        elif op in ('errres', 'errresn', 'errhand') and \
                not self.through_errors:
            # error handling rewinds control; C10 judges it (with
            # through_errors=True)
            self.disabled_depth = True
        # cell type constancy for the cells this instruction may have stored
        if op.startswith('store') or op.startswith('read') or \
                op.startswith('deref') or op in ('frame', 'initarrl',
                                                 'initarrg'):
            self.scan_segment(cpu.cur_frame, pc)
            self.scan_segment(cpu.globals_segment, pc)

    def scan_segment(self, seg, pc):
        if seg is None:
            return
        key0 = id(seg)
        cells = seg.cells
        ct = self.cell_types
        if key0 not in ct:
            ct[key0] = {}
            self.keep.append(seg)
        known = ct[key0]
        for i, c in enumerate(cells):
            if c is None:
                continue
            tn = c.type.name
            old = known.get(i)
            if old is None:
                known[i] = tn
            elif old != tn:
                self.flag('cell_type_changed', idx=i, was=old, now=tn,
                          addr=pc, segment=type(seg).__name__)
                known[i] = tn

    def finish(self, rr):
        """Violations implied by the way the run ended."""
        o = rr.outcome
        if o[0] == 'trap' and o[1] in MACHINE_TRAPS:
            ins = self.at.get(o[2])
            self.flag('machine_trap:' + o[1], addr=o[2],
                      op=ins.op if ins else None,
                      msg=rr.stdout[-200:])
        elif o[0] == 'host_exc':
            self.flag('host_exc:' + o[1], tb=o[2].tb[-800:])
        return self.violations


def snapshot(cpu):
    """A comparable deep snapshot of the machine state."""
    def cellv(c):
        if c is None:
            return None
        v = c.value
        if c.type.name == 'REFERENCE':
            return ('ref', id(v.segment), v.index)
        if isinstance(v, float):
            return (c.type.name, v.hex())
        return (c.type.name, v)

    frames = []
    fr = cpu.cur_frame
    seen_arrays = {}

    def seg(s):
        return tuple(cellv(c) for c in s.cells)
    while fr is not None:
        frames.append((fr.code_start, fr.ret_addr, seg(fr)))
        for c in fr.cells:
            if c is not None and c.type.name == 'REFERENCE':
                s = c.value.segment
                if id(s) not in seen_arrays and s is not cpu.globals_segment \
                        and not hasattr(s, 'prev_frame'):
                    seen_arrays[id(s)] = seg(s)
        fr = fr.prev_frame
    return (cpu.pc, cpu.halted, tuple(cellv(c) for c in cpu.stack),
            tuple(frames), seg(cpu.globals_segment),
            tuple(sorted(seen_arrays.items())),
            cpu.trap_target, cpu.error_handler_active)
