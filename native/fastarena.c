/* Arena allocator for CPython that caches freed blocks instead of returning
 * them to the kernel.  CPython 3.12 allocates its frame "data stack" chunks
 * with mmap and frees them with munmap whenever the call depth crosses a
 * chunk boundary; pyparsing's deep recursion makes that ~10^4 munmap calls per
 * compilation, which is very slow on this sandbox when 16 processes do it at
 * once.  Purely a speed-up of the checking harness; not part of any oracle. */
#include <stddef.h>
#include <sys/mman.h>

#define NB 12            /* size classes 2^12 .. 2^23 */
#define CAP 512
static void *cache[NB][CAP];
static int count[NB];

static int klass(size_t size)
{
    int k;
    for (k = 0; k < NB; k++)
        if (size == ((size_t)1 << (k + 12)))
            return k;
    return -1;
}

static void *qv_alloc(void *ctx, size_t size)
{
    int k = klass(size);
    void *p;
    (void)ctx;
    if (k >= 0 && count[k] > 0)
        return cache[k][--count[k]];
    p = mmap(NULL, size, PROT_READ | PROT_WRITE,
             MAP_PRIVATE | MAP_ANONYMOUS, -1, 0);
    return p == MAP_FAILED ? NULL : p;
}

static void qv_free(void *ctx, void *p, size_t size)
{
    int k = klass(size);
    (void)ctx;
    if (k >= 0 && count[k] < CAP) {
        cache[k][count[k]++] = p;
        return;
    }
    munmap(p, size);
}

struct qv_arena_allocator {
    void *ctx;
    void *(*alloc)(void *, size_t);
    void (*free)(void *, void *, size_t);
};

struct qv_arena_allocator qv_allocator = { 0, qv_alloc, qv_free };
