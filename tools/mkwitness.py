#!/usr/bin/env python3
"""Writes the hand-made witness replay files of the fixed findings."""
import json, os
ROOT = os.path.dirname(os.path.dirname(os.path.abspath(__file__)))
W = []
def w(pid, fname, text, expect=None, **kw):
    case = {'script': kw.pop('script', {})}
    if text is not None:
        case['text'] = text
    if expect is not None:
        case['expect'] = expect
    case.update(kw)
    d = os.path.join(ROOT, 'replays', pid); os.makedirs(d, exist_ok=True)
    with open(os.path.join(d, fname + '.json'), 'w') as f:
        json.dump({'property': pid, 'bucket': 'witness', 'case': case}, f, indent=1)

w('C01', 'fixed_intdiv_type', 'b% = (0.5# + 0.25#) \\ 3: PRINT b%; 7.5 \\ 2\n', {'prints': ' 0  4 \r\n'})
w('C02', 'fixed_peephole_string_fold', 'x$ = "q"\nPRINT RIGHT$(x$, 1) + ("ab" + "."); "ab" + "cd"\n')
w('C02', 'fixed_fold_long_overflow', 'PRINT 2147483647 + 1\n')
w('C02', 'fixed_fold_single_overflow', 'PRINT 1E+38 * 10\n')
w('C01', 'fixed_exp_overflow', 'x# = 10# ^ 400#\nPRINT "no"\n', {'prints': '', 'outcome': 'INVALID_CELL_VALUE'})
w('C01', 'fixed_exp_complex', 'x# = (-8#) ^ .5#\nPRINT "no"\n', {'prints': '', 'outcome': 'INVALID_OPERAND_VALUE'})
w('C01', 'fixed_mid_past_end', 'PRINT MID$("ab", 5); "|"\n', {'prints': '|\r\n'})
w('C01', 'fixed_right_zero', 'PRINT RIGHT$("abc", 0); "|"; RIGHT$("abc", 2)\n', {'prints': '|bc\r\n'})
w('C01', 'fixed_div0_address', 'x% = 1\nPRINT "a"\ny% = x% \\ 0\n', {'prints': 'a\r\n', 'outcome': 'DIVISION_BY_ZERO', 'line': 3})
w('C01', 'fixed_readidx_default', 'TYPE t\na AS INTEGER\nb AS INTEGER\nEND TYPE\nx0$ = "a"\nx1$ = "keep"\nDIM r AS t\nPRINT r.b\nPRINT x1$\n', {'prints': ' 0 \r\nkeep\r\n'})
w('C01', 'fixed_idiv_mod_truncate', 'a% = -7: b% = 2: PRINT a% \\ b%; a% MOD b%; 7 \\ -2; 7 MOD -2\n', {'prints': '-3 -1 -3  1 \r\n'})
w('C01', 'fixed_deftype_case', 'DEFSTR C-e\noi = 5: d = "x": PRINT oi; d\n', {'prints': ' 5 x\r\n'})
w('C01', 'fixed_instr_empty', 'PRINT INSTR("", ""); INSTR("abc", "c")\n', {'prints': ' 0  3 \r\n'})
w('C01', 'fixed_locate_one_arg', 'LOCATE 5\nLOCATE , 7\nPRINT "x"\n', {'prints': 'x\r\n'})
w('C01', 'fixed_label_in_case', 'x = 2\nSELECT CASE x\nCASE 2\nGOTO foo\nPRINT "no"\nfoo: PRINT "yes"\nEND SELECT\n', {'prints': 'yes\r\n'})
w('C01', 'fixed_read_implicit_array', 'READ a(3), b$(2)\nPRINT a(3); b$(2)\nDATA 5, x\n', {'prints': ' 5 x\r\n'})
w('C06', 'fixed_unknown_type_name', 'PRINT LEN("a" * 2)\nSUB f (x AS INTEGER)\nEND SUB\n')
w('C08', 'fixed_const_overflow_dbg', 'CONST s% = 32767 + 32766\nPRINT 1\n')
w('C01', 'fixed_double_overflow_inf', 'x# = 1D+308\nx# = x# * 10#\nPRINT x#\n', {'prints': '', 'outcome': 'INVALID_CELL_VALUE'})
w('C02', 'fixed_fold_string_compare', 'PRINT "a" = "b"; "a" < "b"\nIF "x" >= "x" THEN PRINT "t"\n')
w('C02', 'fixed_fold_compare_coercion', 'PRINT 0 < .5#; 1.5 >= 2.5; .1# = .5#\n')
w('C02', 'fixed_fold_operand_range', 'PRINT 1\nPRINT 4D+38 IMP (-1D+308)\n')
w('C02', 'fixed_fold_single_rounding', 'PRINT .1 / (-2.5#); 1.1754944E-38 ^ .5#\nx# = .1\nPRINT x#\n')
w('C02', 'fixed_fold_unary_clamp', 'PRINT -3.4028235E+38; (-1D+308) + 0#\nPRINT -(-32767 - 1)\n')
w('C02', 'fixed_fold_negative_zero', 'PRINT 0& / (-.5#)\n')
w('C01', 'fixed_integer_power_hang', 'PRINT 2 ^ 3\nPRINT 2147483647 ^ 2147483647\n', {'prints': ' 8 \r\n', 'outcome': 'INVALID_CELL_VALUE'})
w('C01', 'fixed_condition_nonzero', 'IF .3 THEN PRINT "t" ELSE PRINT "f"\nIF 100000 THEN PRINT "t"\nx% = 5: c% = 0\nDO\nc% = c% + 1\nLOOP WHILE x% - c%\nPRINT c%\nc# = 3\nDO\nc# = c# - 1\nLOOP UNTIL c# - 1\nPRINT c#\n', {'prints': 't\r\nt\r\n 5 \r\n 2 \r\n'})
w('C01', 'fixed_restore_plain', 'READ a$: RESTORE: READ b$: PRINT a$; b$\nDATA x\nfoo: DATA y\n', {'prints': 'xx\r\n'})
w('C06', 'fixed_signed_exponent', 'PRINT 2 ^ -1\nKILL 2 ^ -1\n')
w('C06', 'fixed_operand_type_checks', 'TYPE rt\na AS INTEGER\nEND TYPE\nDIM r AS rt, arr(3)\nSOUND r, 7\n')
w('C06', 'fixed_operand_type_checks2', 'DIM arr(3)\nDEF SEG = arr\n')
w('C06', 'fixed_operand_type_checks3', 'BSAVE s$, 7, s$\n')
w('C06', 'fixed_string_condition', 'IF s$ THEN PRINT 1\n')
w('C06', 'fixed_nonnumeric_bound', 'DIM z("t" TO 7) AS INTEGER\n')
w('C06', 'fixed_record_as_value', 'TYPE rt\na AS INTEGER\nEND TYPE\nDIM r AS rt, r2 AS rt\nr2 = r\n')
w('C06', 'fixed_bload_no_offset', 'BLOAD "f"\n')
w('C06', 'fixed_misplaced_case', 'n% = 1\nIF n% THEN\nCASE n%\nEND IF\n')
w('C06', 'fixed_misplaced_case2', 'CASE 5 > 0\n')
w('C06', 'fixed_second_else', 'IF 7 THEN\nELSE\nELSE\nEND IF\n')
w('C06', 'fixed_read_into_call', 'READ fn%(2)\nFUNCTION fn%(p%)\nEND FUNCTION\n')
w('C01', 'fixed_dynamic_array_pass', 'n% = 3\nDIM a&(1 TO n%)\na&(2) = 7\nfoo a&()\nPRINT a&(3)\nSUB foo(q&())\nPRINT q&(2); UBOUND(q&)\nq&(3) = 9\nbar q&()\nEND SUB\nSUB bar(z&())\nPRINT LBOUND(z&); z&(3)\nEND SUB\n', {'prints': ' 7  3 \r\n 1  9 \r\n 9 \r\n'})
w('C01', 'fixed_input_rejected_line', 'GOSUB sr\nPRINT "back"\nEND\nsr: INPUT a%, b%\nPRINT a%; b%\nRETURN\n', {'prints': '? Redo from start\r\n?  7  8 \r\nback\r\n'}, script={'inputs': ['x,5', '7,8']})
w('C07', 'fixed_string_code_range', 'i% = 300\nPRINT STRING$(2, i%)\n', want='INVALID_OPERAND_VALUE')
w('C06', 'fixed_color_string', 'COLOR , s$\n')
w('C01', 'fixed_implicit_local_type', 'DIM x AS INTEGER\nx = 7\ns\nPRINT x\nSUB s\nx = 1.5\nPRINT x\nEND SUB\n', {'prints': ' 1.5 \r\n 7 \r\n'})
w('C06', 'fixed_block_stmt_in_ifline', 'IF n% THEN NEXT ELSE NEXT\n')
w('C04', 'fixed_record_param', 'TYPE t\na AS INTEGER\nb AS LONG\nEND TYPE\nDIM r AS t\nr.a = 1: r.b = 2\nfoo r, 5\nPRINT r.a; r.b\nSUB foo(p AS t, q%)\nPRINT p.a; p.b; q%\np.b = 9\nz = 3\nPRINT z\nEND SUB\n', {'prints': ' 1  2  5 \r\n 3 \r\n 1  9 \r\n'})
w('C15', 'fixed_data_quote_mid_item', None, data_text='a"a  ')
w('C15', 'fixed_data_quote_then_colon', None, data_text='aa"a:')
w('C15', 'fixed_data_trailing_quote', None, data_text=',,11"')
w('C15', 'fixed_restore_label_without_data', 'RESTORE here\nREAD a: PRINT a\nDATA 1\nhere: PRINT "x"\nthere: DATA 2, 3\n', {'prints': ' 2 \r\nx\r\n'})
w('C16', 'known_pow2_digits', None, type='#', values=['5.684341886080802e-14'])
w('C16', 'fixed_single_digits', None, type='!', values=['-149604.390625', '1.0000000200408773e+20', '0.00010383425978943706', '-9999999198822400.0'])
w('C16', 'fixed_val_large_numeral', None, type='!', values=['2147483648.0', '-4895148544.0'])
w('C16', 'fixed_read_d_exponent', None, type='#', values=['-6.2063798879015344e+122', '8.418783728247176e-306'])
w('C19', 'fixed_using_no_decimal_point', None, kind='num', format='####', values=[12.345])
w('C19', 'fixed_using_trailing_sign', None, kind='num', format='#.##+', values=[-0.5])
w('C19', 'fixed_using_point_no_decimals', None, kind='num', format='####.', values=[-1.0])
w('C19', 'fixed_using_overflow_mark', None, kind='num', format='####-', values=[10000.0])
w('C07', 'fixed_using_value_count', 'PRINT USING "##.# "; 1.5; 2.25; 3\nPRINT USING "## and &"; 5\nPRINT USING "##"; "x"\n', want='DEVICE_ERROR')
w('C10', 'known_handler_in_procedure_frame', 'ON ERROR GOTO hz\nhc% = 5\nd% = 0\npf (d%)\nEND\nhz: PRINT "E"; ERR; hc%\nEND\nSUB pf(z%)\nx = 1 \\ z%\nEND SUB\n', {'prints': 'E 14  5 \r\n'})
w('C10', 'fixed_resume_handler_state', 'ON ERROR GOTO h\nd% = 0\nx = 10 \\ d%\nPRINT "after"; x\nd% = 0\ny = 5 \\ d%\nPRINT "after2"; y\nCALL s\nEND\nh: PRINT "E"; ERR\nd% = 2\nRESUME\nSUB s\nPRINT "in s"\nEND SUB\n', {'prints': 'E 14 \r\nafter 5 \r\nE 14 \r\nafter2 2 \r\nin s\r\n'}, only_dbg=True)
w('C10', 'fixed_resume_partial_results', 'ON ERROR GOTO h\nGOTO start\nh: PRINT "E": d% = 1: RESUME NEXT\nstart: d% = 0\nPRINT 1; 2; 5 \\ d%; 7\nPRINT "done"\n', {'prints': 'E\r\ndone\r\n'}, only_dbg=True)
w('C10', 'fixed_resume_next_without_dbg', 'ON ERROR RESUME NEXT\nx = 1 \\ 0\nPRINT "ok"\n', {'prints': '', 'outcome': 'CANNOT_RESUME'}, only_nodbg=True)
w('C09', 'fixed_listing_data_items', 'READ a$\nPRINT a$\nDATA i0, , "x y"\n')
w('C09', 'fixed_data_33000', None, **{'name': 'data_33000'})
w('C06', 'fixed_nested_const_argument', 'CONST rix% = 8\nCONST mo% = rix%\nx& = u1&(mo%)\nPRINT x&\nFUNCTION u1&(a%)\nu1& = a% * 2\nEND FUNCTION\n')
w('C06', 'fixed_too_many_cells', 'DIM SHARED a(70000) AS INTEGER\nDIM SHARED z AS INTEGER\nz = 3\n')


def ast_witnesses():
    """Witnesses that need an AST (C11): built with the generator's classes."""
    import sys
    sys.path.insert(0, ROOT)
    from qv import ast as A, cases, render
    V = lambda n: A.LV(n, [], [], n[-1])
    N = lambda v: A.Num('%', v, str(v))

    def save(pid, name, prog):
        enc = cases.encode_case(prog, {}, render.PLAIN)
        d = os.path.join(ROOT, 'replays', pid)
        os.makedirs(d, exist_ok=True)
        with open(os.path.join(d, name + '.json'), 'w') as f:
            json.dump({'property': pid, 'bucket': 'witness', 'case': enc}, f,
                      indent=1)
    save('C11', 'fixed_end_select_overlap', A.Program([
        A.Select(A.Bin('-', V('ra%'), V('gx%'), '%'),
                 [([('v', N(4))], []),
                  ([('is', '=', N(5)), ('v', N(8))], [])], None)]))
    save('C11', 'fixed_select_without_case', A.Program([
        A.Select(A.Str('u1q'), [], None), A.Print([A.Str('u2q')])]))
    save('C11', 'fixed_block_body_optimised_away', A.Program([
        A.For(V('cu!'), N(0), N(1), None,
              [A.Assign(V('r1#'), A.Paren(V('r1#')))]),
        A.Print([A.Str('u1q')])]))


if os.environ.get('QV_AST_WITNESSES'):
    ast_witnesses()
w('C06', 'fixed_dim_bound_overflow', 'DIM z(1E+38 * 10)\nDIM y(1 \\ 0)\n')
w('C19', 'fixed_using_zero_before_point', None, kind='num', format='#.', values=[-0.5])
w('C07', 'fixed_negative_base_large_exponent', 'x! = -162\nPRINT x! ^ 264.5\n', want='INVALID_OPERAND_VALUE')
w('C06', 'fixed_frame_limit_hidden_variables', 'DIM a(1 TO 65530)\nFOR i = 1 TO 2\nNEXT\n')
w('C06', 'fixed_array_operands', 'DIM a(2), b(2)\nIF a = b THEN PRINT 1\n')
w('C06', 'fixed_function_name_as_for_variable', 'FOR f = 1 TO 2\nNEXT\nFUNCTION f\nf = 1\nEND FUNCTION\n')
w('C06', 'fixed_const_name_as_for_variable', 'CONST c = 1\nFOR c = 1 TO 2\nNEXT\n')
w('C06', 'fixed_field_declaration_outside_type', 'x AS INTEGER\nIF x THEN y AS LONG\n')
w('C06', 'fixed_const_ill_typed', 'CONST c% = 7 + "t"\n')
w('C06', 'fixed_field_declaration_in_sub', 'SUB host\nsb AS INTEGER\nEND SUB\n')
w('C06', 'fixed_input_stray_separator', 'INPUT ;; wx$\nINPUT , y\n')
w('C01', 'fixed_deftype_array_parameter', 'DEFLNG g\nDIM ga(3)\nga(1) = 70000\nCALL v(ga())\nSUB v (g2())\nPRINT g2(1)\nEND SUB\n', {'prints': ' 70000 \r\n'})
w('C06', 'fixed_lbound_parenthesized_array', 'DIM a(3)\nPRINT LBOUND((a))\nPRINT UBOUND((a), 1)\n')
w('C07', 'fixed_using_trailing_underscore', 'x$ = "##_"\nPRINT USING x$; 5\nPRINT "no"\n')
