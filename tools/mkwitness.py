#!/usr/bin/env python3
"""Writes the hand-made witness replay files of the fixed findings."""
import json, os
ROOT = os.path.dirname(os.path.dirname(os.path.abspath(__file__)))
W = []
def w(pid, name, text, expect=None, **kw):
    case = {'text': text, 'script': kw.pop('script', {})}
    if expect is not None:
        case['expect'] = expect
    case.update(kw)
    d = os.path.join(ROOT, 'replays', pid); os.makedirs(d, exist_ok=True)
    with open(os.path.join(d, name + '.json'), 'w') as f:
        json.dump({'property': pid, 'bucket': 'witness', 'case': case}, f, indent=1)

w('C01', 'fixed_intdiv_type', 'b% = (0.5# + 0.25#) \\ 3: PRINT b%; 7.5 \\ 2\n', {'prints': ' 0  4 \r\n'})
w('C02', 'fixed_peephole_string_fold', 'x$ = "q"\nPRINT RIGHT$(x$, 1) + ("ab" + "."); "ab" + "cd"\n')
w('C02', 'fixed_fold_long_overflow', 'PRINT 2147483647 + 1\n')
w('C02', 'fixed_fold_single_overflow', 'PRINT 1E+38 * 10\n')
w('C01', 'fixed_exp_overflow', 'x# = 10# ^ 400#\nPRINT "no"\n', {'prints': '', 'outcome': 'INVALID_CELL_VALUE'})
w('C01', 'fixed_exp_complex', 'x# = (-8#) ^ .5#\nPRINT "no"\n', {'prints': '', 'outcome': 'INVALID_OPERAND_VALUE'})
w('C01', 'fixed_mid_past_end', 'PRINT MID$("ab", 5); "|"\n', {'prints': '|\r\n'})
w('C01', 'fixed_right_zero', 'PRINT RIGHT$("abc", 0); "|"; RIGHT$("abc", 2)\n', {'prints': '|bc\r\n'})
w('C01', 'fixed_div0_address', 'x% = 1\nPRINT "a"\ny% = x% \\ 0\n', {'prints': 'a\r\n', 'outcome': 'DIVISION_BY_ZERO', 'line': 3})
w('C01', 'fixed_readidx_default', 'TYPE t\na AS INTEGER\nb AS INTEGER\nEND TYPE\nx0$ = "a"\nx1$ = "keep"\nDIM r AS t\nPRINT r.b\nPRINT x1$\n', {'prints': ' 0 \r\nkeep\r\n'})
w('C01', 'fixed_idiv_mod_truncate', 'a% = -7: b% = 2: PRINT a% \\ b%; a% MOD b%; 7 \\ -2; 7 MOD -2\n', {'prints': '-3 -1 -3  1 \r\n'})
w('C01', 'fixed_deftype_case', 'DEFSTR C-e\noi = 5: d = "x": PRINT oi; d\n', {'prints': ' 5 x\r\n'})
w('C01', 'fixed_instr_empty', 'PRINT INSTR("", ""); INSTR("abc", "c")\n', {'prints': ' 0  3 \r\n'})
w('C01', 'fixed_locate_one_arg', 'LOCATE 5\nLOCATE , 7\nPRINT "x"\n', {'prints': 'x\r\n'})
w('C01', 'fixed_label_in_case', 'x = 2\nSELECT CASE x\nCASE 2\nGOTO foo\nPRINT "no"\nfoo: PRINT "yes"\nEND SELECT\n', {'prints': 'yes\r\n'})
w('C01', 'fixed_read_implicit_array', 'READ a(3), b$(2)\nPRINT a(3); b$(2)\nDATA 5, x\n', {'prints': ' 5 x\r\n'})
w('C08', 'fixed_const_overflow_dbg', 'CONST s% = 32767 + 32766\nPRINT 1\n')
w('C01', 'fixed_double_overflow_inf', 'x# = 1D+308\nx# = x# * 10#\nPRINT x#\n', {'prints': '', 'outcome': 'INVALID_CELL_VALUE'})
w('C02', 'fixed_fold_string_compare', 'PRINT "a" = "b"; "a" < "b"\nIF "x" >= "x" THEN PRINT "t"\n')
w('C02', 'fixed_fold_compare_coercion', 'PRINT 0 < .5#; 1.5 >= 2.5; .1# = .5#\n')
w('C02', 'fixed_fold_operand_range', 'PRINT 1\nPRINT 4D+38 IMP (-1D+308)\n')
w('C02', 'fixed_fold_single_rounding', 'PRINT .1 / (-2.5#); 1.1754944E-38 ^ .5#\nx# = .1\nPRINT x#\n')
w('C02', 'fixed_fold_unary_clamp', 'PRINT -3.4028235E+38; (-1D+308) + 0#\nPRINT -(-32767 - 1)\n')
w('C02', 'fixed_fold_negative_zero', 'PRINT 0& / (-.5#)\n')
w('C01', 'fixed_integer_power_hang', 'PRINT 2 ^ 3\nPRINT 2147483647 ^ 2147483647\n', {'prints': ' 8 \r\n', 'outcome': 'INVALID_CELL_VALUE'})
w('C01', 'fixed_condition_nonzero', 'IF .3 THEN PRINT "t" ELSE PRINT "f"\nIF 100000 THEN PRINT "t"\nx% = 5: c% = 0\nDO\nc% = c% + 1\nLOOP WHILE x% - c%\nPRINT c%\nc# = 3\nDO\nc# = c# - 1\nLOOP UNTIL c# - 1\nPRINT c#\n', {'prints': 't\r\nt\r\n 5 \r\n 2 \r\n'})
w('C01', 'fixed_restore_plain', 'READ a$: RESTORE: READ b$: PRINT a$; b$\nDATA x\nfoo: DATA y\n', {'prints': 'xx\r\n'})
w('C06', 'fixed_signed_exponent', 'PRINT 2 ^ -1\nKILL 2 ^ -1\n')
w('C06', 'fixed_operand_type_checks', 'TYPE rt\na AS INTEGER\nEND TYPE\nDIM r AS rt, arr(3)\nSOUND r, 7\n')
w('C06', 'fixed_operand_type_checks2', 'DIM arr(3)\nDEF SEG = arr\n')
w('C06', 'fixed_operand_type_checks3', 'BSAVE s$, 7, s$\n')
w('C06', 'fixed_string_condition', 'IF s$ THEN PRINT 1\n')
w('C06', 'fixed_nonnumeric_bound', 'DIM z("t" TO 7) AS INTEGER\n')
w('C06', 'fixed_record_as_value', 'TYPE rt\na AS INTEGER\nEND TYPE\nDIM r AS rt, r2 AS rt\nr2 = r\n')
w('C06', 'fixed_bload_no_offset', 'BLOAD "f"\n')
w('C06', 'fixed_misplaced_case', 'n% = 1\nIF n% THEN\nCASE n%\nEND IF\n')
w('C06', 'fixed_misplaced_case2', 'CASE 5 > 0\n')
w('C06', 'fixed_second_else', 'IF 7 THEN\nELSE\nELSE\nEND IF\n')
w('C06', 'fixed_read_into_call', 'READ fn%(2)\nFUNCTION fn%(p%)\nEND FUNCTION\n')
