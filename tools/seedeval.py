#!/usr/bin/env python3
"""tools/seedeval.py <worktree> <name> <srcdir> <property> <check ids...>

Evaluates one seeded change: applies <srcdir>/patch.diff to a scratch
worktree of /repo (never /repo itself), runs the demonstration with and
without it, runs the given quick checks against the patched tree
(QBEE_REPO=<worktree>), reverts, and stores the change under
/verif/seeded/<name>/ with a meta.json recording what was run and seen."""
import json
import os
import re
import shutil
import subprocess
import sys
import time

ROOT = os.path.dirname(os.path.dirname(os.path.abspath(__file__)))


def sh(cmd, cwd=None, env=None, timeout=3600):
    e = dict(os.environ)
    e.update(env or {})
    p = subprocess.run(cmd, shell=True, cwd=cwd, env=e, timeout=timeout,
                       stdout=subprocess.PIPE, stderr=subprocess.STDOUT,
                       text=True)
    return p.returncode, p.stdout


def main():
    wt, name, src, prop = sys.argv[1:5]
    checks = sys.argv[5:]
    seed = os.environ.get('VERIF_SEED', '1')
    patch = os.path.join(src, 'patch.diff')
    demo = os.path.join(src, 'demo.py')
    rc, out = sh('git status --short', cwd=wt)
    if out.strip():
        print('worktree dirty'); sys.exit(3)
    sh('git checkout -q --detach %s' % sh('git -C /repo rev-parse HEAD')[1]
       .strip(), cwd=wt)
    rc, out = sh('git apply --check %s' % patch, cwd=wt)
    if rc:
        print('%s: PATCH DOES NOT APPLY' % name); sys.exit(4)
    meta = {'name': name, 'property': prop, 'seed': int(seed),
            'tree': sh('git rev-parse --short HEAD', cwd=wt)[1].strip(),
            'ran': [], 'checks': {}}
    notes = ''
    if os.path.exists(os.path.join(src, 'notes.md')):
        notes = open(os.path.join(src, 'notes.md')).read()
    meta['description'] = notes.strip().split('\n')[0].lstrip('# ').strip()
    m = re.search(r'(Need(?:ed|s) to manifest.*?)(?:\n\n|\Z)', notes, re.S)
    meta['needs_to_manifest'] = re.sub(r'\s+', ' ', m.group(1)) if m else \
        re.sub(r'\s+', ' ', notes)[:1200]
    if os.path.exists(demo):
        rc0, _ = sh('/venv/bin/python %s' % demo, cwd=wt, timeout=600)
        meta['demo_exit_unchanged_tree'] = rc0
    sh('git apply %s' % patch, cwd=wt)
    try:
        if os.path.exists(demo):
            rc1, out1 = sh('/venv/bin/python %s' % demo, cwd=wt, timeout=600)
            meta['demo_exit_with_change'] = rc1
            meta['demo_output_with_change'] = out1[-600:]
            meta['ran'].append('cd <tree> && /venv/bin/python demo.py')
        for cid in checks:
            t0 = time.time()
            cmd = './check %s --tier quick' % cid
            rc, out = sh(cmd, cwd=ROOT, env={'QBEE_REPO': wt,
                                             'VERIF_SEED': seed})
            buckets = re.findall(r'bucket: (\S+)', out)
            meta['ran'].append('VERIF_SEED=%s %s   (tree with the change '
                               'applied)' % (seed, cmd))
            meta['checks'][cid] = {
                'exit': rc, 'violation_lines': out.count('VIOLATION'),
                'buckets': buckets[:6], 'wall_s': round(time.time() - t0)}
            sh('rm -f replays/%s/new_*.json' % cid, cwd=ROOT)
    finally:
        sh('git checkout -- . && git clean -fdq', cwd=wt)
    meta['caught_by'] = [c for c, r in meta['checks'].items()
                         if r['exit'] == 1 and r['violation_lines']]
    dst = os.path.join(ROOT, 'seeded', name)
    os.makedirs(dst, exist_ok=True)
    shutil.copy(patch, os.path.join(dst, 'patch.diff'))
    if os.path.exists(demo):
        shutil.copy(demo, os.path.join(dst, 'demo.py'))
    if notes:
        open(os.path.join(dst, 'notes.md'), 'w').write(notes)
    json.dump(meta, open(os.path.join(dst, 'meta.json'), 'w'), indent=1)
    print('%s: demo %s->%s caught_by=%s %s' % (
        name, meta.get('demo_exit_unchanged_tree'),
        meta.get('demo_exit_with_change'), meta['caught_by'],
        {c: r['buckets'][:2] for c, r in meta['checks'].items()}))


if __name__ == '__main__':
    main()
