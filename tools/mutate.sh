#!/bin/sh
# tools/mutate.sh <patch.diff> <seed> <check ids...>
# Applies a seeded defect to /repo, runs the given quick checks, and reverts.
patch=$1; seed=$2; shift 2
cd "$(dirname "$0")/.."
if ! git -C /repo diff --quiet; then echo "REPO DIRTY - abort"; exit 3; fi
if ! git -C /repo apply --check "$patch" 2>/dev/null; then
  echo "PATCH DOES NOT APPLY: $patch"; exit 4
fi
git -C /repo apply "$patch" 
demo=$(dirname "$patch")/demo.py
if [ -f "$demo" ]; then
  (cd /repo && timeout 300 /venv/bin/python "$demo" >/dev/null 2>&1); echo "  demo exit with patch: $? (1 = defect manifests on this tree)"
fi
for id in "$@"; do
  start=$(date +%s)
  out=$(VERIF_SEED=$seed ./check $id --tier quick 2>&1); rc=$?
  end=$(date +%s)
  echo "  $id rc=$rc $((end-start))s $(echo "$out" | grep -c VIOLATION) violation line(s): $(echo "$out" | grep 'bucket:' | head -3 | tr '\n' ' ' | cut -c1-200)"
  rm -f replays/$id/new_*.json
done
git -C /repo reset -q --hard HEAD; git -C /repo status --short | head -3
