#!/bin/sh
# tools/runall.sh <seed> <tier> <ids...> : run checks, print one line each
seed=$1; tier=$2; shift 2
cd "$(dirname "$0")/.."
for id in "$@"; do
  start=$(date +%s)
  out=$(VERIF_SEED=$seed ./check $id --tier $tier 2>&1); rc=$?
  end=$(date +%s)
  echo "$id seed=$seed rc=$rc $((end-start))s | $(echo "$out" | grep ' tier=' | tail -1) | $(echo "$out" | grep -v '^WARNING\|resource_tracker\|warnings.warn\| tier=' | tail -3 | tr '\n' ' ' | cut -c1-300)"
done
