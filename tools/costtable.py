#!/usr/bin/env python3
"""costtable.py <quick log> <thorough log>: markdown table from runall.sh logs."""
import re, sys
def parse(path):
    out = {}
    for l in open(path):
        m = re.match(r'(C\d\d) seed=(\d+) rc=(\d+) (\d+)s \|.*?evaluations=(\d+) distinct_nontrivial=(\d+)', l)
        if m:
            out.setdefault(m.group(1), []).append((int(m.group(4)), int(m.group(5)), int(m.group(6)), int(m.group(3))))
    return out
q = parse(sys.argv[1]); t = parse(sys.argv[2])
print('| property | quick: wall s / evaluations / non-trivial | thorough: wall s / evaluations / non-trivial |')
print('|---|---|---|')
for pid in sorted(set(q) | set(t)):
    def cell(d):
        if pid not in d: return '-'
        w, e, n, rc = d[pid][0]
        return '%d / %d / %d' % (w, e, n)
    print('| %s | %s | %s |' % (pid, cell(q), cell(t)))
