#!/usr/bin/env python3
import json, sys
for p in sys.argv[1:]:
    d = json.load(open(p))
    print('=' * 70); print(p); print('BUCKET', d['bucket'])
    det = d.get('detail') or {}
    tb = det.pop('tb', None)
    print('DETAIL', json.dumps(det, default=repr)[:700])
    if tb: print(tb[-500:])
    print(d['case'].get('text')); print('SCRIPT', {k: v for k, v in (d['case'].get('script') or {}).items() if v and k in ('inputs',)})
