#!/usr/bin/env python3
"""Prints the markdown table of seeded changes from seeded/*/meta.json."""
import glob, json, os
ROOT = os.path.dirname(os.path.dirname(os.path.abspath(__file__)))
rows = []
for f in sorted(glob.glob(os.path.join(ROOT, 'seeded', '*', 'meta.json'))):
    m = json.load(open(f))
    checks = []
    for c, r in m['checks'].items():
        if r['exit'] == 1 and r['violation_lines']:
            checks.append('**%s** (%s)' % (c, ', '.join(r['buckets'][:2])))
        else:
            checks.append('%s: missed' % c)
    desc = m['description']
    if ' - ' in desc:
        desc = desc.split(' - ', 1)[1]
    elif ': ' in desc:
        desc = desc.split(': ', 1)[1]
    rows.append('| %s | %s | %s |' % (m['name'], desc.replace('|', '/'),
                                    '; '.join(checks).replace('|', '/')))
print('| change | what it does | quick checks run against it (seed %s) |' %
      (json.load(open(f))['seed'] if rows else 1))
print('|---|---|---|')
print('\n'.join(rows))
