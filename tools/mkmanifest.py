#!/usr/bin/env python3
"""Regenerates MANIFEST.json from the table below (kept next to the code so
that the manifest is valid at every commit)."""
import json
import os

ROOT = os.path.dirname(os.path.dirname(os.path.abspath(__file__)))

# id -> dict(category, text, note, technique, design_ref, thorough=True)
CHECKS = {}

PENDING_REASON = ('check not yet registered: under construction, see '
                  'DESIGN.md section 10 (order of construction)')


def load_checks():
    path = os.path.join(ROOT, 'tools', 'checks.json')
    if os.path.exists(path):
        with open(path) as f:
            return json.load(f)
    return {}


def main():
    checks = load_checks()
    ids = []
    with open(os.path.join(ROOT, 'properties.jsonl')) as f:
        for line in f:
            if line.strip():
                ids.append(json.loads(line)['id'])
    out_checks = []
    na = []
    for pid in ids:
        c = checks.get(pid)
        if not c or c.get('not_applicable'):
            na.append({'property_id': pid,
                       'reason': (c or {}).get('reason', PENDING_REASON)})
            continue
        entry = {
            'property_id': pid,
            'quick_cmd': './check %s --tier quick' % pid,
            'thorough_cmd': './check %s --tier thorough' % pid,
            'evidence_file': 'evidence/%s.json' % pid,
            'replay_cmd_template': './check %s --replay {path}' % pid,
            'engine': c.get('engine', 'qv'),
            'level_claimed': {
                'category': c['category'],
                'text': c['text'],
                'design_ref': c.get('design_ref', 'DESIGN.md section 7, ' + pid),
            },
            'level_note': c['note'],
            'technique': c['technique'],
        }
        out_checks.append(entry)
    doc = {
        'version': 1,
        'setup_cmd': 'sh ./setup.sh',
        'hooks': {
            'guard': 'QBEE_VERIF',
            'enable': ('no source hooks: all observation is done by wrapping '
                       'live objects (QvmCpu.tick, TerminalDevice._exec_print, '
                       'DataDevice._exec_read) inside the check process; '
                       '/repo is not modified for instrumentation'),
            'baseline_off_cmd': (
                'cd /repo && /venv/bin/python -m pytest -ra -q '
                '-p no:cacheprovider --timeout=900 '
                '--continue-on-collection-errors'),
            'source_commits': [],
            'add_only': True,
        },
        'engines': [{
            'name': 'qv',
            'path': 'qv/',
            'serves_properties': [c['property_id'] for c in out_checks],
            'kind_free_text': (
                'Hypothesis-driven typed program generator + renderer, '
                'reference interpreter, execution harness with scripted '
                'recording peripherals, 16-way process sharding, '
                'collect-then-report runner'),
        }],
        'checks': out_checks,
        'not_applicable': na,
        'notes': ('Every check: exit 0 = held on everything explored, exit 1 '
                  '+ VIOLATION line, exit 2 = harness error. VERIF_SEED is '
                  'the only source of randomness. known_findings.txt lists '
                  'confirmed defects recorded rather than repaired.'),
    }
    with open(os.path.join(ROOT, 'MANIFEST.json'), 'w') as f:
        json.dump(doc, f, indent=1)
        f.write('\n')


if __name__ == '__main__':
    main()
