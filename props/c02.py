"""C02 - Optimisation and compile-time evaluation never change behaviour.

Differential with O0 as the reference:
  (1) generated programs: O1, O2, O3 must be accepted iff O0 is, and produce
      O0's trace and outcome;
  (2) constant expressions, enumerated: every operator x every pair of operand
      types x boundary values, as `PRINT e`, `CONST c = e: PRINT c` and as a
      static array bound; the typed value or trap at O0 is the expectation;
  (3) peephole windows (props/c02_windows.py, same ID) - instruction lists
      executed on the real CPU before and after optimize()."""
import itertools

from hypothesis import strategies as st

from qv import gen, render, run as X, cases, shrink as SH, trace as T
from qv.runner import digest, derive_seed

ID = 'C02'
LEVEL = 'exploration'
RULE = ('(1) programs from G biased to constant sub-expressions, CONST '
        'chains and constant conditions, compiled at O0..O3 (no -g and -g '
        'alternating); (2) one-line programs PRINT <a op b> / CONST c = <a '
        'op b>: PRINT c / DIM a(<e1> TO <e2>) with neighbours, for all 18 '
        'binary and 3 unary operators x all pairs of numeric operand types '
        'x boundary values (0, 1, 2, x.5, type limits, limits+1 as wider '
        'type, float32/64 limits), plus string + and relations; thorough '
        'tier enumerates the product completely, quick tier a seeded '
        'sample; (3) peephole windows.  Non-trivial: (1) optimised code '
        'section differs from O0; (2) every case (all are constant-'
        'foldable); distinct by program text.')
ASSUMPTIONS = [
    'O0 is the reference: the property defines the optimised levels relative '
    'to unoptimised run-time evaluation',
]
LEVELS = (0, 1, 2, 3)

INT_VALS = ['0', '1', '2', '3', '7', '32767', '-1', '-2', '-7', '-32767']
LONG_VALS = ['0&', '1&', '3&', '32768', '65536', '2147483647', '-1&',
             '-32769', '-2147483647', '46341&']
SNG_VALS = ['0!', '1!', '.5', '1.5', '2.5', '.1', '16777216!', '3.4028235E+38',
            '1.1754944E-38', '32767.5', '2147483648!', '-.5', '-1.5', '-2.5',
            '-3.4028235E+38', '-32768.5']
DBL_VALS = ['0#', '1#', '.5#', '1.5#', '2.5#', '.1#', '1D+308', '32767.5#',
            '2147483647.5#', '4D+38', '-.5#', '-2.5#', '-1D+308',
            '-2147483648.5#', '4.9D-324', '9007199254740993#']
STR_VALS = ['""', '"a"', '"b"', '"ab"', '"A"', '" "']
VALS = {'%': INT_VALS, '&': LONG_VALS, '!': SNG_VALS, '#': DBL_VALS}
BINOPS = ['+', '-', '*', '/', '\\', 'MOD', '^', '=', '<>', '<', '>', '<=',
          '>=', 'AND', 'OR', 'XOR', 'EQV', 'IMP']
UNOPS = ['-', '+', 'NOT ']
RELOPS = ['=', '<>', '<', '>', '<=', '>=']


def paren(v):
    return '(%s)' % v if v.startswith('-') else v


def const_exprs():
    """The complete finite domain of sub-check (2), as expression texts."""
    out = []
    for lt, rt in itertools.product('%&!#', repeat=2):
        for a, b in itertools.product(VALS[lt], VALS[rt]):
            for op in BINOPS:
                out.append('%s %s %s' % (paren(a), op, paren(b)))
    for t in '%&!#':
        for a in VALS[t]:
            for op in UNOPS:
                out.append('%s%s' % (op, paren(a)))
    for a, b in itertools.product(STR_VALS, repeat=2):
        out.append('%s + %s' % (a, b))
        for op in RELOPS:
            out.append('%s %s %s' % (a, op, b))
    # nested: fold of a fold
    for a, b, c in [('32767', '1', '1'), ('2147483647', '1', '1'),
                    ('-32767', '-1', '-1'), ('3.4028235E+38', '2!', '2!'),
                    ('1', '3', '3'), ('.1', '.2', '.3')]:
        for op1 in ('+', '-', '*', '/', '\\'):
            for op2 in ('+', '-', '*', '/', '\\', 'MOD'):
                out.append('(%s %s %s) %s %s' % (paren(a), op1, paren(b),
                                                 op2, paren(c)))
                out.append('%s %s (%s %s %s)' % (paren(a), op1, paren(b),
                                                 op2, paren(c)))
    return out


def program_for(expr, form):
    if form == 'print':
        return 'PRINT %s\n' % expr
    if form == 'const':
        return 'CONST c = %s\nPRINT c\n' % expr
    if form == 'ifcond':
        return 'IF %s THEN PRINT "t" ELSE PRINT "f"\n' % expr
    if form.startswith('assign'):
        # implicit conversion of the constant to each variable type, and as
        # a by-value argument
        t = form[-1]
        return ('x%s = %s\nPRINT x%s\nCALL s((%s))\nSUB s (p%s)\n'
                'PRINT p%s\nEND SUB\n' % (t, expr, t, expr, t, t))
    if form == 'byval':
        # an expression argument is passed by value at every level: the
        # callee's assignment must not reach the caller's variable
        t, wrapped = expr
        return ('a%s = 5\nCALL s(%s)\nPRINT a%s\ns %s\nPRINT a%s\n'
                'b& = 3\nCALL s(%s)\nPRINT b&\n'
                'SUB s (p%s)\np%s = p%s + 1\nPRINT p%s\nEND SUB\n' % (
                    t, wrapped.format('a' + t), t,
                    wrapped.format('a' + t), t,
                    wrapped.format('b&') if t != '&' else '(b&)',
                    t, t, t, t))
    # static array bound: the compile-time bound decides the layout, the
    # generated code evaluates the bound again at run time
    return ('v = 7\nDIM a(%s TO 3 + (%s)) AS INTEGER\nw = 9\n'
            'a(LBOUND(a)) = 1\na(UBOUND(a)) = 2\n'
            'PRINT LBOUND(a); UBOUND(a); v; w; a(LBOUND(a))\n' % (expr, expr))


def configure(tier, avoid):
    quick = tier == 'quick'
    p = gen.Params(
        max_stmts=12 if quick else 24, max_depth=2, expr_depth=3,
        max_procs=1, edgy=0.25, avoid=avoid, const_bias=0.6, dead_code=0.3, mixed_case_types=True,
        features={'input': False, 'devices': False})
    return {'examples': 200 if quick else 3000, 'params': p,
            'tier': tier, 'quick_sample': 2400,
            'bounds': {'levels': list(LEVELS),
                       'const_domain': len(const_exprs())},
            'tick_budget': 60000,
            'exhaustive': not quick}


def setup_worker(cfg):
    X.set_parse_cache(True)


def items(cfg):
    exprs = const_exprs()
    out = []
    import random
    rng = random.Random(derive_seed(ID, cfg.get('seed', 1), 0, 'items'))
    for k, e in enumerate(exprs):
        out.append((e, 'print'))
        r = rng.random()
        if r < 0.15:
            out.append((e, 'const'))
        elif r < 0.25:
            out.append((e, 'ifcond'))
        elif r < 0.32 and '"' not in e:
            out.append((e, 'bound'))
        elif r < 0.50 and '"' not in e:
            out.append((e, 'assign' + '%&!#'[int(r * 1000) % 4]))
    if cfg['tier'] == 'quick':
        rng.shuffle(out)
        out = out[:cfg['quick_sample']]
    # relational operators between a SINGLE and a DOUBLE constant that differ
    # only in precision, both orders (both tiers)
    for a, b in [('.1', '.1#'), ('3.3!', '3.3#'), ('16777216!', '16777217#'),
                 ('.7!', '.7#'), ('-.1', '-.1#'), ('1E+10', '10000000001#')]:
        for op in RELOPS:
            for x, y in ((a, b), (b, a)):
                e = '%s %s %s' % (paren(x), op, paren(y))
                out.append((e, 'print'))
                out.append((e, 'ifcond'))
                out.append((e, 'const'))
    # every boundary literal, and literals whose SINGLE value lands on a
    # rounding tie, converted to every numeric type (both tiers)
    lits = []
    for t in '%&!#':
        lits.extend(VALS[t])
    lits += ['3.4999999', '2.4999999', '.49999999', '-.49999999',
             '1.4999999', '32767.4999', '-32768.4999', '16777217',
             '16777216.5', '2.5#', '3.5#', '.5#', '-.5#', '32767.5#',
             '-32768.5#', '2147483647.5#', '-2147483648.5#',
             '2147483647.4999', '8388608.5', '4.5', '-4.5', '1.5', '-2.5']
    for t in '%&!#':
        for w in ('({0})', '+{0}', '-(-{0})', '{0} + 0', '({0}) * 1',
                  '+({0})', '(+{0})', '{0} - 0', '0 + {0}', '1 * {0}',
                  'NOT (NOT {0})' if t in '%&' else '({0})'):
            out.append(((t, w), 'byval'))
    seen = set()
    for v in lits:
        if v in seen:
            continue
        seen.add(v)
        for t in '%&!#':
            out.append((v, 'assign' + t))
            out.append(('-(%s)' % v, 'assign' + t))
    return out


def strategy(cfg):
    return gen.programs(cfg['params'])


def run_levels(text, script, cfg, dbg_of=lambda lvl: False):
    """-> (failures, info).  O0 is the expectation for the other levels."""
    failures = []
    info = {'accepted': False, 'code_differs': False, 'events': 0}
    sc = X.Script(**script)
    ref = X.compile_one(text, 0, dbg_of(0))
    ref_run = None
    if ref.kind == 'accepted':
        info['accepted'] = True
        ref_run = X.execute(ref.module, sc, tick_budget=cfg['tick_budget'])
        info['events'] = len(ref_run.events)
        info['ref_outcome'] = ref_run.outcome[:2]
        if ref_run.outcome[0] in ('budget', 'input_exhausted'):
            info['inconclusive'] = 'ref_' + ref_run.outcome[0]
            return failures, info
    if ref.kind == 'timeout':
        info['inconclusive'] = 'compile_timeout'
        return failures, info
    for lvl in LEVELS[1:]:
        c = X.compile_one(text, lvl, dbg_of(lvl))
        if c.kind == 'timeout':
            info['inconclusive'] = 'compile_timeout'
            continue
        if c.key() != ref.key():
            failures.append(('accept:O0=%s/O%d=%s' % (
                _k(ref), lvl, _k(c)), {'level': lvl, 'O0': repr(ref),
                                      'opt': repr(c),
                                      'tb': getattr(c, 'tb', '')[-1000:]}))
            continue
        if c.kind != 'accepted':
            continue
        if c.sections.get(4) != ref.sections.get(4):
            info['code_differs'] = True
        r = X.execute(c.module, sc, tick_budget=cfg['tick_budget'])
        if r.outcome[0] == 'host_exc' and ref_run.outcome[0] == 'host_exc' \
                and r.outcome[1] == ref_run.outcome[1]:
            continue
        d = T.diff(T.normalise(ref_run.events), T.normalise(r.events))
        if d is not None:
            i, a, b = d
            failures.append(('trace:%s' % _dk(a, b), {
                'level': lvl, 'index': i, 'O0': a, 'opt': b,
                'O0_outcome': ref_run.outcome[:2],
                'opt_outcome': r.outcome[:2]}))
        elif cases.outcome_key(r.outcome) != \
                cases.outcome_key(ref_run.outcome):
            failures.append(('outcome:O0=%s/opt=%s' % (
                '-'.join(map(str, ref_run.outcome[:2])),
                '-'.join(map(str, r.outcome[:2]))), {'level': lvl}))
    seen = {}
    for b, d in failures:
        seen.setdefault(b, d)
    return list(seen.items()), info


def _k(c):
    return c.key()[-1] if c.kind != 'accepted' else 'accepted'


def _dk(a, b):
    if a is None or b is None:
        return 'length'
    if a[0] == b[0] == 'PRINT':
        from qv.oracle import _print_diff
        return 'print:' + _print_diff(a[1], b[1])
    return '%s/%s' % (a[0], b[0])


def bound_neighbours(text, cfg):
    """The 'bound' form: the compile-time bounds decide the frame layout,
    the generated code evaluates them again at run time; if the two disagree
    the stores to the first / last element land on the neighbours v and w."""
    out = []
    for lvl in LEVELS:
        c = X.compile_one(text, lvl, False)
        if c.kind != 'accepted':
            continue
        r = X.execute(c.module, X.Script(), tick_budget=cfg['tick_budget'])
        if r.outcome[0] != 'end':
            continue
        ev = [e for e in r.events if e[0] == 'print_items']
        if not ev or not ev[-1][1]:
            continue
        vals = [it for it in ev[-1][1] if it[0] == 'v']
        if len(vals) == 5:
            lb, ub, v, w, first = [x[2] for x in vals]
            want_first = 1 if ub != lb else 2
            if (v, w, first) != (7.0, 9.0, want_first):
                out.append(('bound_layout', {
                    'level': lvl, 'lbound': lb, 'ubound': ub, 'v': v, 'w': w,
                    'first_element': first}))
                break
    return out


def check_item(item, cfg):
    expr, form = item
    text = program_for(expr, form)
    failures, info = run_levels(text, {}, cfg)
    if form == 'bound':
        failures = failures + bound_neighbours(text, cfg)
    fl = [{'bucket': 'const:' + b, 'detail': dict(d, expr=expr, form=form),
           'case': {'text': text, 'script': {}}} for b, d in failures]
    return {'key': digest(text), 'nontrivial': True,
            'classes': ['const_expr', 'form:' + form,
                        'O0:' + (str(info.get('ref_outcome', ['rejected'])[0])
                                 if info['accepted'] else 'rejected')],
            'failures': fl, 'inconclusive': info.get('inconclusive'),
            'sample': {'source': text} if digest(text)[0] == '0' else None}


def check(case, cfg):
    prog, script, stats = case
    text = render.render(prog).text
    key = digest([text, script])
    dbg = int(key[:2], 16) % 2 == 1
    failures, info = run_levels(text, script, cfg, lambda lvl: dbg)
    nontrivial = info['accepted'] and info['code_differs']
    fl = []
    if failures:
        enc = cases.encode_case(prog, script)
        enc['dbg'] = dbg
        fl = [{'bucket': 'prog:' + b, 'detail': d, 'case': enc}
              for b, d in failures]
    cls = ['program']
    if info['accepted']:
        cls.append('accepted')
    if info['code_differs']:
        cls.append('optimised_code_differs')
    return {'key': key, 'nontrivial': nontrivial, 'classes': cls,
            'failures': fl, 'inconclusive': info.get('inconclusive'),
            'sample': cases.sample_of(text, script) if nontrivial and
            key[0] in '01' else None}


def replay(obj, cfg):
    dbg = bool(obj.get('dbg'))
    failures, info = run_levels(obj['text'], obj.get('script') or {}, cfg,
                                lambda lvl: dbg)
    if 'DIM a(' in obj['text'] and not obj.get('ast'):
        failures = failures + bound_neighbours(obj['text'], cfg)
    pre = 'prog:' if obj.get('ast') else 'const:'
    return {'failures': [{'bucket': pre + b, 'detail': d, 'case': obj}
                         for b, d in failures]}


def shrink(failure, cfg):
    obj = failure['case']
    if not obj.get('ast'):
        return failure
    prog, script, style, text = cases.decode_case(obj)
    bucket = failure['bucket']
    dbg = bool(obj.get('dbg'))

    def still(p):
        t = render.render(p).text
        fs, _ = run_levels(t, script, cfg, lambda lvl: dbg)
        return any('prog:' + b == bucket for b, _ in fs)
    small = SH.shrink_program(prog, still, max_tests=60)
    t = render.render(small).text
    fs, _ = run_levels(t, script, cfg, lambda lvl: dbg)
    for b, d in fs:
        if 'prog:' + b == bucket:
            enc = cases.encode_case(small, script)
            enc['dbg'] = dbg
            return {'bucket': bucket, 'detail': d, 'case': enc}
    return failure
