"""C13 - Debugger expression evaluation agrees with the running program.

Differential oracle (the one named in the property's observe_at): generated
programs contain probe statements  PRINT "@@"; e1; e2 ...  whose expressions
are built only from variables, array elements, record fields, constants,
literals and operators.  The program is run under qvm.dbg.Cmd with an address
breakpoint on every probe; at each stop every ei is given to
`print <text of ei>` and the answer is compared with the typed value the
program itself then prints for ei (taken from the operand stack of the PRINT
that executes next)."""
import contextlib
import io
import math
import re

from hypothesis import strategies as st

from qv import gen, render, run as X, cases, shrink as SH, monitor as M
from qv import ast as A
from qv.runner import digest

ID = 'C13'
LEVEL = 'exploration'
RULE = ('Programs from the typed generator G (records, arrays incl. dynamic '
        'and SHARED ones, CONST, procedures with parameters / locals / STATIC '
        '/ SHARED variables, recursion) with probe statements placed at drawn '
        'positions in the module code and in procedure bodies, compiled at '
        'O0 / O1 / O2 with -g; every probe stop (at most 8 per run) x every '
        'probe expression, plus an unknown name and an out-of-range '
        'subscript at each stop, plus all expressions again after the program '
        'has ended.  Plus two deterministic catalogues: every declaration '
        'shape (scalars, 1-3-dimensional arrays of scalars and records, '
        'nested records, dynamic arrays) x every scope (module, SHARED, '
        'local, STATIC, parameter, function below a SUB) with all leaves '
        'assigned and probed; and every binary operator x 8 x 8 typed '
        'operands with boundary values.  Non-trivial: at least one expression that reads a '
        'variable, element or field was compared at a stop inside a '
        'procedure frame, or two different values of the same expression '
        'were compared in one run.  Distinct by (text, script, level).')
ASSUMPTIONS = [
    'the value the program would obtain is the typed operand the program '
    'passes to PRINT for the same expression text in the statement the '
    'debugger is stopped at; hits where the program itself fails while '
    'evaluating the probe are skipped',
    'a variable that was never assigned: the answer "does not have a value '
    'yet" is admitted when the program reads its default value (0 or "")',
    'numeric answers are compared as numbers (the debugger prints Python '
    'numbers), strings as text',
]
MAX_HITS = 8


def configure(tier, avoid):
    quick = tier == 'quick'
    p = gen.Params(max_stmts=14 if quick else 22, max_depth=2, expr_depth=2,
                   max_procs=3, min_procs=1, call_bias=0.12, edgy=0.25,
                   error_rate=0.02, probe_rate=0.22, avoid=avoid,
                   features={'input': False, 'devices': False})
    return {'examples': 200 if quick else 4000, 'params': p, 'tier': tier,
            'bounds': {'hits_per_run': MAX_HITS}, 'tick_budget': 40000}


def setup_worker(cfg):
    X.set_parse_cache(True)


@st.composite
def probed(draw, params):
    prog, script, stats = draw(gen.programs(params))
    style = draw(gen.styles())
    level = draw(st.sampled_from([0, 0, 1, 2]))
    return prog, script, style, level, stats


def strategy(cfg):
    return probed(cfg['params'])


def is_probe(s):
    return isinstance(s, A.Print) and s.items and \
        isinstance(s.items[0], A.Str) and s.items[0].v == '@@'


def reads_storage(e):
    if isinstance(e, A.LV):
        return True
    if isinstance(e, A.Bin):
        return reads_storage(e.l) or reads_storage(e.r)
    if isinstance(e, A.Un):
        return reads_storage(e.e)
    return False


def find_probe_records(module, probes, rendered):
    """probe stmt -> address of its first instruction (via its line and the
    marker text of the statement's source extract)."""
    di = module.debug_info
    src = di.source_code
    out = {}
    by_line = {}
    for r in di.stmts:
        if r.end_offset > r.start_offset:
            by_line.setdefault(r.source_start_line, []).append(r)
    for p in probes:
        line = rendered.pos[id(p)]['line']
        cands = [r for r in by_line.get(line, [])
                 if '"@@"' in src[r.source_start_offset:r.source_end_offset]
                 and src[r.source_start_offset:r.source_end_offset]
                 .lstrip()[:5].upper() == 'PRINT']
        # several probes on one line: order of appearance
        cands.sort(key=lambda r: r.source_start_offset)
        same_line = [q for q in probes
                     if rendered.pos[id(q)]['line'] == line]
        k = [id(q) for q in same_line].index(id(p))
        if len(cands) == len(same_line):
            out[id(p)] = cands[k]
    return out


NUM_RE = re.compile(r'^[-+]?(\d+\.?\d*([eE][-+]?\d+)?|\.\d+([eE][-+]?\d+)?|'
                    r'inf|nan)$')


def agree(answer, item):
    """Does the debugger's printed answer denote the program's value?"""
    _, t, v = item
    if t == '$':
        return answer == v
    a = answer.strip()
    if a in ('True', 'False'):
        return False
    if not NUM_RE.match(a):
        return False
    try:
        x = float(a)
    except ValueError:
        return False
    if isinstance(v, float) and v != v:
        return x != x
    if t in '%&':
        return x == v
    if t == '!':
        # the answer denotes a SINGLE: compare at single precision
        return render.f32(x) == float(v)
    return x == float(v)


class PExpr:
    """One probe expression: text, kind label, does it read storage, is it a
    bare lvalue, and (for array elements) a text with a subscript far out of
    range."""

    def __init__(self, txt, kind, reads, is_lv, far=None, tag=''):
        self.txt, self.kind, self.reads, self.is_lv, self.far = (
            txt, kind, reads, is_lv, far)
        self.tag = tag      # the probe prints "@@" + tag as its first item


def judge(prog, script, style, level, cfg):
    rendered = render.render(prog, style)
    text = rendered.text
    info = {'accepted': False, 'text': text, 'compared': 0, 'in_proc': 0,
            'varying': 0, 'kinds': set()}
    probes = [s for s, _ in A.walk_stmts(prog.body) if is_probe(s)]
    if not probes:
        info['no_probe'] = True
        return [], info
    m = X.compile_one(text, level, True)
    if m.kind != 'accepted':
        return [], info
    info['accepted'] = True
    module = m.module
    recs = find_probe_records(module, probes, rendered)
    if not recs:
        info['inconclusive'] = 'probe_record_not_identified'
        return [], info
    rr = render.Renderer(style)
    exprs = {}
    for p in probes:
        if id(p) in recs:
            lst = []
            for e in p.items[1:]:
                if isinstance(e, str):
                    continue
                far = None
                if isinstance(e, A.LV) and e.idx:
                    far = rr.expr(A.LV(e.name, [A.Num('%', 30000, '30000')] +
                                       list(e.idx[1:]), e.fields, e.t))
                lst.append(PExpr(rr.expr(e), kind_of(e), reads_storage(e),
                                 isinstance(e, A.LV), far))
            exprs[recs[id(p)].start_offset] = lst
    failures = core(module, exprs, script, level, cfg, info)
    return failures, info


def core(module, exprs, script, level, cfg, info):
    """Runs the module under the debugger with a breakpoint at every probe
    address and compares; -> list of (bucket, detail)."""
    free = X.execute(module, X.Script(**script),
                     tick_budget=cfg['tick_budget'])
    if free.outcome[0] in ('budget', 'input_exhausted', 'host_exc'):
        info['inconclusive'] = 'free_run_' + free.outcome[0]
        return []
    from qvm.dbg import Cmd
    failures = []
    machine, impl, out = X.make_machine(module, X.Script(**script))
    cpu = machine.cpu
    seen_values = {}
    max_hits = cfg.get('max_hits', MAX_HITS)

    def ask(dbg, text_):
        buf = io.StringIO()
        before = M.snapshot(cpu)
        with contextlib.redirect_stdout(buf):
            dbg.onecmd('print ' + text_)
        after = M.snapshot(cpu)
        if before != after:
            failures.append(('evaluation_altered_machine_state',
                             {'expr': text_}))
        ans = buf.getvalue()
        if ans.endswith('\n'):
            ans = ans[:-1]
        return ans
    try:
        with X.guard(X.RUN_TIMEOUT):
            sink = io.StringIO()
            with contextlib.redirect_stdout(sink):
                dbg = Cmd(machine, module)
                for addr in exprs:
                    dbg.onecmd('break 0x%x' % addr)
            hits = 0
            pending = None
            while hits < max_hits:
                with contextlib.redirect_stdout(sink):
                    dbg.onecmd('continue')
                # the probe print executed since the previous stop
                if pending is not None:
                    compare(pending, impl.events[pending['n_ev']:], failures,
                            info, seen_values)
                    pending = None
                if cpu.halted and cpu.halt_reason.name != 'BREAKPOINT':
                    break
                if cpu.pc not in exprs:
                    break
                hits += 1
                frame_depth = 0
                f = cpu.cur_frame
                while f is not None:
                    frame_depth += 1
                    f = f.prev_frame
                answers = []
                for pe in exprs[cpu.pc]:
                    answers.append((pe, ask(dbg, pe.txt)))
                a = ask(dbg, 'zzqj9')
                if not a.startswith('Eval error'):
                    failures.append(('unknown_name_not_reported',
                                     {'answer': a[:80]}))
                for extra in cfg.get('extra_asks', ()):
                    ask(dbg, extra)     # any answer; must not raise
                for pe in exprs[cpu.pc]:
                    if pe.far:
                        a = ask(dbg, pe.far)
                        info['kinds'].add('out_of_range_subscript')
                        if not a.startswith('Eval error'):
                            failures.append((
                                'out_of_range_subscript_not_reported',
                                {'expr': pe.far, 'answer': a[:80]}))
                pending = {'n_ev': len(impl.events), 'answers': answers,
                           'pc': cpu.pc, 'in_proc': frame_depth > 1}
            # run to the end without breakpoints
            with contextlib.redirect_stdout(sink):
                for bp in list(cpu.breakpoints):
                    cpu.del_breakpoint(bp)
                if not (cpu.halted and
                        cpu.halt_reason.name != 'BREAKPOINT'):
                    dbg.onecmd('continue')
            if pending is not None:
                compare(pending, impl.events[pending['n_ev']:], failures,
                        info, seen_values)
            # after the end: every expression again, nothing may escape
            for addr, lst in exprs.items():
                for pe in lst:
                    ask(dbg, pe.txt)
            ask(dbg, 'zzqj9')
    except X.HangGuard:
        failures.append(('hang', {}))
    except BaseException as e:
        if isinstance(e, (KeyboardInterrupt, MemoryError)):
            raise
        h = X.HostExc(e, 'debugger')
        failures.append(('debugger_exception:' + h.bucket(),
                         {'tb': h.tb[-1000:]}))
    seen = {}
    for b, d in failures:
        seen.setdefault(b, dict(d, level=level))
    info['varying'] = sum(1 for v in seen_values.values() if len(v) > 1)
    return list(seen.items())


def compare(pending, events, failures, info, seen_values):
    items = None
    for ev in events:
        if ev[0] == 'print_items':
            items = ev[1]
            break
    if not items:
        return          # the program failed while evaluating the probe
    vals = [it for it in items if it[0] == 'v']
    answers = pending['answers']
    tag = answers[0][0].tag if answers else ''
    if not vals or vals[0][1] != '$' or vals[0][2] != '@@' + tag:
        return          # (another statement's output: this probe failed)
    vals = vals[1:]
    if len(vals) != len(answers):
        return
    for (pe, ans), item in zip(answers, vals):
        info['compared'] += 1
        info['kinds'].add(pe.kind)
        if pe.reads and pending['in_proc']:
            info['in_proc'] += 1
        seen_values.setdefault((pending['pc'], pe.txt), set()).add(repr(item))
        if agree(ans, item):
            continue
        if 'does not have a value yet' in ans and (
                not pe.is_lv or item[2] in (0, 0.0, '')):
            # a never-assigned variable (alone: the program reads the
            # default value; inside a compound expression: admitted)
            info['kinds'].add('unassigned_admitted')
            continue
        what = 'eval_error' if ans.startswith('Eval error') else \
            'wrong_value'
        failures.append(('%s:%s' % (what, pe.kind), {
            'expr': pe.txt, 'debugger': ans[:120], 'program': list(item),
            'in_procedure': pending['in_proc']}))


def kind_of(e):
    if isinstance(e, A.LV):
        if e.idx and e.fields:
            return 'array_element_field'
        if e.idx:
            return 'array_element'
        if e.fields:
            return 'field'
        return 'scalar' + ('_string' if e.t == '$' else '')
    if isinstance(e, A.ConstRef):
        return 'const'
    if isinstance(e, A.Bin):
        return 'binary_' + ('rel' if e.op in ('=', '<', '>', '<=', '>=', '<>')
                            else 'logic' if e.op in ('AND', 'OR') else
                            'concat' if e.t == '$' else 'arith')
    if isinstance(e, A.Un):
        return 'unary_' + e.op
    return 'literal'


def check(case, cfg):
    prog, script, style, level, stats = case
    failures, info = judge(prog, script, style, level, cfg)
    key = digest([info['text'], script, level])
    nontrivial = info['accepted'] and (info['in_proc'] > 0 or
                                       info['varying'] > 0)
    cls = ['level:%d' % level] + ['compared:' + k
                                  for k in sorted(info['kinds'])]
    if info.get('no_probe'):
        cls.append('no_probe')
    if info['in_proc']:
        cls.append('compared_in_procedure_frame')
    if info['varying']:
        cls.append('expression_with_varying_value')
    for k in stats:
        if k.startswith('probe_'):
            cls.append('has_' + k)
    fl = []
    if failures:
        enc = cases.encode_case(prog, script, style, {'level': level})
        fl = [{'bucket': b, 'detail': d, 'case': enc} for b, d in failures]
    return {'key': key, 'nontrivial': bool(nontrivial), 'classes': cls,
            'failures': fl, 'inconclusive': info.get('inconclusive'),
            'extra_evals': max(0, info['compared'] - 1),
            'sample': {'source': info['text'], 'level': level,
                       'comparisons': info['compared']}
            if nontrivial and key[0] in '01' else None}


def replay(obj, cfg):
    if obj.get('probes') is not None:
        by_line = {int(k): [PExpr(x[0], x[1], True, True, x[2],
                                  x[3] if len(x) > 3 else '')
                            for x in v]
                   for k, v in obj['probes'].items()}
        r = judge_text(obj['text'], by_line, obj['level'], cfg, [],
                       complete=False)
        return {'failures': r['failures']}
    prog, script, style, text = cases.decode_case(obj)
    failures, info = judge(prog, script, style, obj['level'], cfg)
    return {'failures': [{'bucket': b, 'detail': d, 'case': obj}
                         for b, d in failures]}


def shrink(failure, cfg):
    obj = failure['case']
    if obj.get('probes') is not None:
        return failure
    prog, script, style, text = cases.decode_case(obj)
    level = obj['level']
    bucket = failure['bucket']

    def fails(p):
        fs, _ = judge(p, script, style, level, cfg)
        return any(b == bucket for b, _ in fs)
    small = SH.shrink_program(prog, fails, max_tests=60)
    fs, _ = judge(small, script, style, level, cfg)
    for b, d in fs:
        if b == bucket:
            return {'bucket': b, 'detail': d, 'case': cases.encode_case(
                small, script, style, {'level': level})}
    return failure


# ---------------------------------------------------------------------------
# Deterministic catalogue: every declaration shape x every scope, all leaves
# assigned distinct values and probed (storage layout as the debugger
# re-derives it, against the layout the program uses).
TYPES_SRC = ('TYPE tin\nia AS INTEGER\nib AS DOUBLE\nEND TYPE\n'
             'TYPE tout\npa AS LONG\nqa AS tin\nra AS STRING\nsa AS SINGLE\n'
             'END TYPE\n')
LEAVES = {'tin': [('.ia', '%'), ('.ib', '#')],
          'tout': [('.pa', '&'), ('.qa.ia', '%'), ('.qa.ib', '#'),
                   ('.ra', '$'), ('.sa', '!')]}
SHAPES = [
    # (name, element type, bounds or None, dynamic)
    ('scalar_long', '&', None, False),
    ('scalar_string', '$', None, False),
    ('scalar_double', '#', None, False),
    ('array1_long', '&', [(0, 2)], False),
    ('array2_double', '#', [(1, 2), (0, 2)], False),
    ('array3_integer', '%', [(1, 2), (0, 1), (3, 4)], False),
    ('array2_string', '$', [(1, 2), (1, 2)], False),
    ('record_nested', 'tout', None, False),
    ('array1_record', 'tout', [(1, 2)], False),
    ('array2_record', 'tout', [(0, 1), (1, 2)], False),
    ('array3_record', 'tin', [(1, 2), (0, 1), (3, 4)], False),
    ('dynamic2_record', 'tin', [(1, 2), (0, 2)], True),
    ('dynamic1_long', '&', [(1, 3)], True),
]
SCOPES = ['module', 'shared_in_sub', 'local_in_sub', 'static_in_sub',
          'parameter', 'local_in_function_below_sub']
TYPE_WORD = {'%': 'INTEGER', '&': 'LONG', '!': 'SINGLE', '#': 'DOUBLE',
             '$': 'STRING'}


def shape_program(shape, scope):
    """-> (text, {line: [PExpr]})"""
    import itertools
    name, et, bounds, dynamic = shape
    tw = TYPE_WORD.get(et, et)

    def decl(kw, var):
        if bounds is None:
            return '%s %s AS %s' % (kw, var, tw)
        bs = ', '.join(
            ('%d TO %s' % (lo, 'n%d%%' % k if dynamic else hi))
            for k, (lo, hi) in enumerate(bounds))
        return '%s %s(%s) AS %s' % (kw, var, bs, tw)

    def leaves(var):
        out = []
        idxs = [()] if bounds is None else list(itertools.product(
            *[range(lo, hi + 1) for lo, hi in bounds]))
        for ix in idxs:
            base = var + ('(%s)' % ', '.join(map(str, ix)) if ix else '')
            for suffix, t in (LEAVES.get(et) or [('', et)]):
                far = None
                if ix:
                    far = var + '(%s)' % ', '.join(
                        ['30000'] + [str(i) for i in ix[1:]]) + suffix
                out.append((base + suffix, t, far))
        return out

    def assigns(var):
        lines = []
        for k, (txt, t, _) in enumerate(leaves(var)):
            if t == '$':
                val = '"s%d"' % k
            elif t in '#!':
                val = '%d.5' % (k + 1)
            else:
                val = str(100 + k)
            lines.append('%s = %s' % (txt, val))
        return lines

    def probes(var, kind):
        lines = []
        plist = []
        lv = leaves(var)
        for c in range(0, len(lv), 5):
            chunk = lv[c:c + 5]
            lines.append('PRINT "@@"; ' + '; '.join(t for t, _, _ in chunk))
            plist.append([PExpr(t, kind + (':field' if '.' in t else ''),
                                True, True, far) for t, _, far in chunk])
        return lines, plist

    dyn_setup = []
    if dynamic:
        dyn_setup = ['n%d%% = %d' % (k, hi) for k, (lo, hi) in
                     enumerate(bounds)]
    pad1 = 'pada& = 77001'
    pad2 = 'padb# = 77002.5'
    pad_probe = 'PRINT "@@"; pada&; padb#'
    pad_pe = [PExpr('pada&', 'pad', True, True), PExpr('padb#', 'pad', True,
                                                       True)]
    main = []
    subs = []
    probe_sets = []        # (list of lines, list of PExpr lists)
    if scope == 'module':
        body = [pad1] + dyn_setup + [decl('DIM', 'v'), pad2] + assigns('v')
        pl, pp = probes('v', name)
        main = body + pl + [pad_probe]
        probe_sets = pp + [pad_pe]
        text_lines = main
    elif scope == 'shared_in_sub':
        if dynamic:
            return None
        main = [decl('DIM SHARED', 'v'), 'DIM SHARED pada AS LONG',
                'pada = 77001'] + assigns('v') + ['CALL sp']
        pl, pp = probes('v', name)
        subs = ['SUB sp', 'lcl% = 5'] + pl + ['PRINT "@@"; pada; lcl%',
                                               'END SUB']
        probe_sets = pp + [[PExpr('pada', 'pad', True, True),
                            PExpr('lcl%', 'pad', True, True)]]
        text_lines = main + subs
    elif scope in ('local_in_sub', 'static_in_sub',
                   'local_in_function_below_sub'):
        kw = 'STATIC' if scope == 'static_in_sub' else 'DIM'
        if dynamic and kw == 'STATIC':
            return None
        pl, pp = probes('v', name)
        inner = [pad1] + dyn_setup + [decl(kw, 'v'), pad2] + assigns('v') + \
            pl + [pad_probe]
        probe_sets = pp + [pad_pe]
        if scope == 'local_in_function_below_sub':
            main = ['CALL sp(3)']
            subs = ['SUB sp (k%)', 'z& = fz&(k% + 1)', 'END SUB',
                    'FUNCTION fz& (m%)'] + inner + ['fz& = m%',
                                                   'END FUNCTION']
        else:
            main = ['CALL sp', 'CALL sp'] if kw == 'STATIC' else ['CALL sp']
            subs = ['SUB sp'] + inner + ['END SUB']
        text_lines = main + subs
    elif scope == 'parameter':
        main = dyn_setup + [decl('DIM', 'w')] + assigns('w')
        if bounds is None:
            main.append('CALL sp(7, w, 9.5)')
            ptxt = 'p AS %s' % tw
        else:
            main.append('CALL sp(7, w(), 9.5)')
            ptxt = 'p() AS %s' % tw
        pl, pp = probes('p', name + ':param')
        subs = ['SUB sp (pa%%, %s, pb#)' % ptxt, 'lc& = 5'] + pl + \
            ['PRINT "@@"; pa%; pb#; lc&', 'END SUB']
        probe_sets = pp + [[PExpr('pa%', 'pad', True, True),
                            PExpr('pb#', 'pad', True, True),
                            PExpr('lc&', 'pad', True, True)]]
        text_lines = main + subs
    text = TYPES_SRC + '\n'.join(text_lines) + '\n'
    by_line = {}
    k = 0
    for ln, line in enumerate(text.split('\n'), 1):
        if line.startswith('PRINT "@@"'):
            by_line[ln] = probe_sets[k]
            k += 1
    assert k == len(probe_sets), (k, len(probe_sets))
    return text, by_line


EXPR_VARS = [('a%', '32767'), ('b&', '70000'), ('c!', '.1'), ('d#', '.1#'),
             ('e!', '16777216'), ('f#', '16777217#'), ('g%', '-3'),
             ('h#', '2.5#')]
EXPR_OPS = ['+', '-', '*', '/', '\\', 'MOD', '^', '=', '<>', '<', '>', '<=',
            '>=', 'AND', 'OR', 'XOR', 'EQV', 'IMP']


def expr_program(op, left):
    """One program per (operator, left operand): eight probes, one per
    right operand, each on its own tagged line; a probe the program itself
    cannot evaluate is skipped by ON ERROR RESUME NEXT."""
    lines = ['ON ERROR RESUME NEXT']
    lines += ['%s = %s' % (n, v) for n, v in EXPR_VARS]
    by_line = {}
    for k, (rn, _) in enumerate(EXPR_VARS):
        tag = '%d' % k
        txt = '%s %s %s' % (left, op, rn)
        lines.append('PRINT "@@%s"; %s' % (tag, txt))
        by_line[len(lines)] = [PExpr(txt, 'catalogue_expr:' + op, True, False,
                                     None, tag)]
    return '\n'.join(lines) + '\n', by_line


def scope_program():
    """Names that exist at several levels: a parameter and a local that hide
    SHARED variables, a CONST of a procedure that hides a module CONST, a
    STATIC that outlives a call; and expressions the evaluator cannot handle
    (they must be answered, not crash)."""
    lines = ['CONST lim = 5', 'CONST big& = 70000', 'DIM SHARED g1 AS LONG',
             'DIM SHARED g2 AS DOUBLE', 'g1 = 11', 'g2 = 1.5',
             'PRINT "@@m"; g1; g2; lim; big&',
             'CALL s(22)', 'CALL s(33)',
             'PRINT "@@n"; g1; g2; lim',
             'SUB s (g1 AS LONG)',
             'CONST lim = 9', 'STATIC cnt AS INTEGER', 'DIM lc AS STRING',
             'cnt = cnt + 1', 'lc = "loc"',
             'PRINT "@@s"; g1; g2; lc; lim; cnt; big&; lim * 2; g1 + cnt',
             'END SUB']
    text = '\n'.join(lines) + '\n'
    def pe(txts, tag):
        return [PExpr(t, 'scopes', True, ' ' not in t, None, tag)
                for t in txts]
    by_line = {7: pe(['g1', 'g2', 'lim', 'big&'], 'm'),
               10: pe(['g1', 'g2', 'lim'], 'n'),
               17: pe(['g1', 'g2', 'lc', 'lim', 'cnt', 'big&', 'lim * 2',
                       'g1 + cnt'], 's')}
    return text, by_line


def items(cfg):
    out = [(('scopes',), 'module', 0), (('scopes',), 'module', 2)]
    for op in EXPR_OPS:
        for ln, _ in EXPR_VARS:
            out.append((('expr', op, ln), 'module', 0))
    for shape in SHAPES:
        for scope in SCOPES:
            for level in (0, 2):
                out.append((shape, scope, level))
    return out


def check_item(item, cfg):
    shape, scope, level = item
    if shape[0] == 'scopes':
        text, by_line = scope_program()
        r = judge_text(text, by_line, level, cfg, ['catalogue:scopes'])
        # expressions outside the evaluator's reach: answered, never a crash
        r2 = judge_text('x# = -2.5\nPRINT "@@q"; x#\n', {2: [
            PExpr('x#', 'scopes', True, True, None, 'q')]}, level,
            dict(cfg, extra_asks=['abs(x#)', 'len("a")', 'x#(1)', 'x#.f',
                                  '1 +', 'x# +* 2', '"a" + 1', 'nosuch(3)']),
            ['catalogue:scopes'])
        r['failures'] = r['failures'] + r2['failures']
        return r
    if shape[0] == 'expr':
        text, by_line = expr_program(shape[1], shape[2])
        return judge_text(text, by_line, level, cfg,
                          ['catalogue:expr:' + shape[1]], complete=False)
    built = shape_program(tuple(shape), scope)
    cls = ['catalogue:shape:' + shape[0], 'catalogue:scope:' + scope]
    if built is None:
        return {'key': digest([shape[0], scope, level]), 'nontrivial': False,
                'classes': ['catalogue:not_applicable'], 'failures': []}
    text, by_line = built
    return judge_text(text, by_line, level, cfg, cls)


def judge_text(text, by_line, level, cfg, cls, complete=True):
    info = {'accepted': False, 'text': text, 'compared': 0, 'in_proc': 0,
            'varying': 0, 'kinds': set()}
    failures = []
    m = X.compile_one(text, level, True)
    if m.kind != 'accepted':
        failures.append(('catalogue:not_accepted', {'got': repr(m)[:300]}))
    else:
        info['accepted'] = True
        di = m.module.debug_info
        exprs = {}
        for r in di.stmts:
            if r.end_offset > r.start_offset and \
                    r.source_start_line in by_line and \
                    di.source_code[r.source_start_offset:
                                   r.source_end_offset].startswith(
                                       'PRINT "@@'):
                exprs[r.start_offset] = by_line[r.source_start_line]
        if len(exprs) != len(by_line):
            failures.append(('catalogue:probe_records_missing', {
                'found': len(exprs), 'wanted': len(by_line)}))
        cfg2 = dict(cfg, max_hits=64)
        failures.extend(core(m.module, exprs, {}, level, cfg2, info))
        want = sum(len(v) for v in by_line.values())
        if complete and not failures and info['compared'] < want:
            failures.append(('catalogue:probe_not_compared', {
                'compared': info['compared'], 'wanted': want}))
    fl = [{'bucket': b, 'detail': dict(d, level=level),
           'case': {'text': text, 'level': level,
                    'probes': {str(k): [[pe.txt, pe.kind, pe.far, pe.tag]
                                        for pe in v]
                               for k, v in by_line.items()}}}
          for b, d in failures]
    return {'key': digest([text, level]), 'nontrivial': info['compared'] > 0,
            'classes': cls + ['compared:' + k for k in sorted(info['kinds'])],
            'failures': fl, 'inconclusive': info.get('inconclusive'),
            'extra_evals': max(0, info['compared'] - 1),
            'sample': {'source': text, 'level': level}
            if level == 0 and digest(text)[0] in '01' else None}
