"""C06 - The compiler is total: any text yields a module or a diagnostic.

Validity predicate over generated inputs: compilation terminates and either
returns code for which bytes(code), str(code) and QModule.parse succeed, or
raises SyntaxError / CompileError with a position inside the text.  Anything
else is a violation, bucketed by (exception type, innermost function in the
repository)."""
import re

from hypothesis import strategies as st

from qv import gen, render, run as X, cases
from qv.runner import digest, derive_seed

ID = 'C06'
LEVEL = 'exploration'
RULE = ('(a) valid programs from the typed generator G; (b) token-level '
        'mutations of such programs: 1-3 of delete / duplicate / swap / '
        'replace-by-vocabulary-token (keywords, operators, literals, '
        'separators); (b2) character-level noise on such programs: 1-3 '
        'insertions / replacements by any of the 256 code page 437 '
        'characters a source file can contain (control characters, CR, '
        'NUL, ^Z, high half) or by lexically odd fragments (`&H`, `1E`, '
        '`..`); (b3) token soup: 1-5 lines of vocabulary tokens behind a '
        'statement keyword, inserted among up to six valid lines; '
        '(c) a template catalogue: every statement form with '
        'each operand missing, duplicated or replaced by an expression of '
        'every other kind (numeric, string, record, array, function name, '
        'keyword), at module level, inside a SUB and inside a block - '
        'enumerated completely; plus 20 extreme constants into every '
        'numeric target position.  Each input x O0/O1/O2 x {-g, no -g}.  '
        'Bounds: <= 40 lines, nesting <= 4.  Non-trivial: the input passed '
        'the parser (reached the semantic passes) or is rejected at a line '
        'other than the first.  Distinct by text.')
ASSUMPTIONS = [
    'a wall-clock guard of 30 s per compilation reports a hang as '
    'inconclusive, never as a violation',
]
CONFIGS = X.ALL_CONFIGS

VOCAB = ['IF', 'THEN', 'ELSE', 'ELSEIF', 'END', 'FOR', 'TO', 'STEP', 'NEXT',
         'WHILE', 'WEND', 'DO', 'LOOP', 'UNTIL', 'SELECT', 'CASE', 'IS',
         'GOTO', 'GOSUB', 'RETURN', 'SUB', 'FUNCTION', 'DIM', 'SHARED',
         'STATIC', 'AS', 'INTEGER', 'STRING', 'TYPE', 'CONST', 'PRINT',
         'USING', 'INPUT', 'READ', 'DATA', 'RESTORE', 'ON', 'ERROR', 'RESUME',
         'EXIT', 'CALL', 'LET', 'NOT', 'AND', 'OR', 'MOD', 'DEFINT', 'LOCATE',
         'COLOR', 'SOUND', 'POKE', 'DEF', 'SEG', 'VIEW', 'WIDTH', 'SCREEN',
         'LEN', 'MID$', 'LBOUND', 'RND', 'ERR', 'INKEY$',
         '+', '-', '*', '/', '\\', '^', '=', '<', '>', '<>', '<=', '(', ')',
         ',', ';', ':', '.', '"', "'", '%', '&', '!', '#', '$',
         '0', '1', '32768', '2.5', '1E5', '&HFF', '"s"', 'x', 'a$', 'q%',
         '\n', '\n', ' ']

ALL_CHARS = [bytes([b]).decode('cp437') for b in range(256)]
ODD_CHARS = [bytes([b]).decode('cp437') for b in
             (0, 9, 10, 11, 12, 13, 26, 27, 28, 29, 30, 31, 127, 128, 255)] + \
    ['\r\n', '"', "'", '&', '&H', '&O', '.', '..', '1.', '.5', 'E', 'D',
     '1E', '1D+', '#', '!', '%', '$', '_', '?', '@', '[', ']', '{', '}',
     '|', '~', '`', '\\', ':', ';', ',', '(', ')']
SOUP_STARTS = ['PRINT', 'IF', 'FOR', 'DIM', 'x =', 'a$ =', 'CALL',
               'SELECT CASE', 'CASE', 'DO', 'LOOP', 'WHILE', 'DATA', 'READ',
               'INPUT', 'ON ERROR GOTO', 'GOTO', 'SUB s1', 'END SUB',
               'FUNCTION f1', 'END FUNCTION', 'TYPE t1', 'END TYPE', 'CONST',
               'NEXT', 'END IF', 'ELSE', 'DECLARE', 'DEF', 'LOCATE', 'lbl:',
               '10', 'REM', "'", 'PRINT USING', 'LINE INPUT', 'RESTORE',
               'RESUME', 'SWAP', 'ERASE', 'REDIM', 'STATIC', 'SHARED',
               'EXIT', 'END', 'LET', 'RANDOMIZE', 'DEFINT', 'OPTION BASE']

TOKEN_RE = re.compile(
    r'"[^"\n]*"?|\d+\.?\d*(?:[eEdD][+-]?\d+)?[%&!#]?|&[hHoO][0-9a-fA-F]+|'
    r'[A-Za-z][A-Za-z0-9]*[%&!#$]?|<>|><|<=|>=|=<|=>|\n|[ \t]+|.')


def configure(tier, avoid):
    quick = tier == 'quick'
    p = gen.Params(max_stmts=10 if quick else 20, max_depth=2, expr_depth=2,
                   max_procs=1, avoid=avoid, mixed_case_types=True)
    return {'examples': 700 if quick else 12000, 'params': p, 'tier': tier,
            'quick_sample': 900,
            'bounds': {'max_lines': 40, 'configs': [
                X.cfg_name(c) for c in CONFIGS]},
            'exhaustive_catalogue': not quick}


def setup_worker(cfg):
    X.set_parse_cache(True)


# ------------------------------------------------------------ (a) and (b)

@st.composite
def inputs(draw, params):
    prog, script, stats = draw(gen.programs(params))
    style = draw(gen.styles())
    text = render.render(prog, style).text
    kind = draw(st.sampled_from(['valid', 'mut', 'mut', 'mut', 'chars',
                                 'soup']))
    if kind == 'valid':
        return 'valid', text
    if kind == 'chars':
        # character-level noise: any of the 256 characters a source file
        # can contain (qbee reads its input as code page 437)
        chars = list(text)
        for _ in range(draw(st.integers(1, 3))):
            c = draw(st.one_of(st.sampled_from(ODD_CHARS),
                               st.sampled_from(ALL_CHARS)))
            i = draw(st.integers(0, len(chars)))
            if draw(st.booleans()) and i < len(chars):
                chars[i] = c
            else:
                chars.insert(i, c)
        return 'chars', ''.join(chars)
    if kind == 'soup':
        # lines of vocabulary tokens behind a statement keyword, placed
        # after a few valid lines so that the parser is past line 1
        lines = text.split('\n')[:draw(st.integers(0, 6))]
        for _ in range(draw(st.integers(1, 5))):
            toks = [draw(st.sampled_from(SOUP_STARTS))]
            toks += draw(st.lists(st.sampled_from(VOCAB), max_size=7))
            sep = draw(st.sampled_from([' ', ' ', ' ', '']))
            lines.insert(draw(st.integers(0, len(lines))), sep.join(toks))
        return 'soup', '\n'.join(lines) + '\n'
    toks = TOKEN_RE.findall(text)
    if not toks:
        return 'valid', text
    for _ in range(draw(st.integers(1, 3))):
        op = draw(st.sampled_from(['del', 'dup', 'swap', 'repl', 'repl',
                                   'ins']))
        i = draw(st.integers(0, len(toks) - 1))
        if op == 'del':
            del toks[i]
        elif op == 'dup':
            toks.insert(i, toks[i])
        elif op == 'swap':
            j = draw(st.integers(0, len(toks) - 1))
            toks[i], toks[j] = toks[j], toks[i]
        elif op == 'repl':
            toks[i] = draw(st.sampled_from(VOCAB))
        else:
            toks.insert(i, draw(st.sampled_from(VOCAB)))
            toks.insert(i, ' ')
        if not toks:
            break
    return 'mutated', ''.join(toks)


def strategy(cfg):
    return inputs(cfg['params'])


# -------------------------------------------------------------------- (c)

PRELUDE = ('TYPE rt\nfa AS INTEGER\nfb AS STRING\nEND TYPE\n'
           'DIM r AS rt, r2 AS rt\nDIM arr(3) AS INTEGER, sarr$(2)\n'
           'n% = 1: s$ = "s": d# = 2.5\nCONST kc = 3\n')
POSTLUDE = ('END\nlbl: RETURN\n'
            'FUNCTION fn% (p%)\nfn% = p%\nEND FUNCTION\n'
            'SUB sb (p%, q$)\nEND SUB\n'
            'FUNCTION f0\nf0 = 1\nEND FUNCTION\n')
FILLERS = {
    'num': '7', 'var': 'n%', 'dbl': 'd#', 'str': '"t"', 'svar': 's$',
    'rec': 'r', 'field': 'r.fa', 'arr': 'arr', 'elem': 'arr(1)',
    'arrpass': 'arr()', 'func': 'fn%', 'call': 'fn%(2)', 'sub': 'sb',
    'kw': 'TO', 'kw2': 'ELSE', 'neg': '-1', 'big': '99999999999',
    'paren': '(', 'empty': '', 'label': 'lbl', 'nolabel': 'nowhere',
    'expneg': '2 ^ -1', 'strcmp': '"a" < "b"', 'cmp': 'n% > 0',
    'func0': 'f0', 'const': 'kc', 'sarr': 'sarr$', 'field2': 'r.fb',
    'parenarr': '(arr)', 'parenrec': '(r)', 'parenstr': '(s$)',
    'parennum': '(n%)', 'arrcall': 'arr()', 'negstr': '-s$',
    'strmul': '"a" * 2', 'stradd': 's$ + 1', 'recadd': 'r + 1',
}
TEMPLATES = [
    'x = {0}', 'LET x% = {0}', 'x$ = {0}', 'r.fa = {0}', 'arr({0}) = {1}',
    'r = {0}', 'arr = {0}', 'PRINT {0}', 'PRINT {0}; {1}', 'PRINT {0},',
    'PRINT USING {0}; {1}', 'IF {0} THEN PRINT 1', 'IF {0} THEN {1}',
    'IF {0} THEN PRINT 1 ELSE PRINT {1}',
    'IF {0} THEN\nPRINT 1\nELSE\nPRINT 2\nEND IF',
    'IF {0} THEN\nELSEIF {1} THEN\nELSE\nELSE\nEND IF',
    'IF 1 THEN\nPRINT {0}\nELSE\nEND IF\nELSE',
    'FOR i = {0} TO {1}\nNEXT', 'FOR i = 1 TO 2 STEP {0}\nNEXT i',
    'FOR {0} = 1 TO 2\nNEXT', 'FOR i = 1 TO 2\nNEXT {0}',
    'WHILE {0}\nWEND', 'DO WHILE {0}\nLOOP', 'DO\nLOOP UNTIL {0}',
    'DO WHILE {0}\nLOOP UNTIL {1}', 'DO\nEXIT {0}\nLOOP',
    'SELECT CASE {0}\nCASE {1}\nEND SELECT',
    'SELECT CASE n%\nCASE {0} TO {1}\nCASE IS > {0}\nCASE ELSE\nEND SELECT',
    'SELECT CASE {0}\nPRINT 1\nCASE 1\nEND SELECT', 'CASE {0}', 'CASE ELSE',
    'END SELECT', 'END IF', 'NEXT', 'WEND', 'LOOP', 'END SUB', 'END TYPE',
    'GOTO {0}', 'GOSUB {0}', 'RETURN {0}', 'RESTORE {0}', 'ON ERROR GOTO {0}',
    'ON ERROR RESUME NEXT', 'RESUME {0}', 'RESUME NEXT',
    'CALL sb({0}, {1})', 'sb {0}, {1}', 'CALL sb({0})', 'CALL {0}',
    'CALL fn%({0})', 'x = fn%({0})', 'x = fn%({0}, {1})', 'x = {0}({1})',
    'DIM z({0})', 'DIM z({0} TO {1}) AS INTEGER', 'DIM z AS {0}',
    'DIM SHARED z2({0})', 'STATIC z3', 'DIM r', 'DIM n%',
    'CONST c = {0}', 'CONST c% = {0} + {1}',
    'READ {0}', 'READ x, {0}', 'DATA {0}', 'DATA 1, "a, "b"',
    'INPUT {0}', 'INPUT "p"; {0}', 'INPUT ; "p", x, {0}',
    'LOCATE {0}', 'LOCATE {0}, {1}', 'LOCATE , , {0}', 'LOCATE {0}, {1}, 1, 2, 3',
    'COLOR {0}', 'COLOR {0}, {1}, {0}', 'COLOR , {0}',
    'SOUND {0}, {1}', 'PLAY {0}', 'POKE {0}, {1}', 'DEF SEG = {0}',
    'DEF SEG', 'RANDOMIZE {0}', 'SCREEN {0}', 'SCREEN {0}, {1}, {0}, {1}',
    'WIDTH {0}', 'WIDTH {0}, {1}', 'WIDTH , {0}', 'VIEW PRINT {0} TO {1}',
    'VIEW PRINT', 'KILL {0}', 'BLOAD {0}, {1}', 'BSAVE {0}, {1}, {0}',
    'BEEP {0}', 'CLS {0}', 'END {0}', 'DEFINT {0}', 'DEFSTR a-{0}',
    'x = LEN({0})', 'x$ = MID$({0}, {1})', 'x$ = LEFT$({0}, {1})',
    'x = INSTR({0}, {1})', 'x = INSTR({0}, {1}, {0})', 'x$ = CHR$({0})',
    'x = ASC({0})', 'x = VAL({0})', 'x$ = STR$({0})', 'x = ABS({0})',
    'x = LBOUND({0})', 'x = UBOUND({0}, {1})', 'x = RND({0})',
    'x$ = STRING$({0}, {1})', 'x$ = SPACE$({0})', 'x = PEEK({0})',
    'x = INT({0})', 'x = CINT({0})', 'x = ERR', 'x = TIMER({0})',
    'x = {0} + {1}', 'x = {0} MOD {1}', 'x = {0} \\ {1}', 'x = {0} ^ {1}',
    'x = NOT {0}', 'x = -{0}', 'x = {0} AND {1}', 'x = {0} = {1}',
    'x = ({0}', 'x = {0})', 'x = {0} {1}', 'x = r.{0}', 'x = r.fa.{0}',
    'x = arr({0}, {1})', 'x = arr(1).{0}', 'x = n%({0})',
    'TYPE t2\nEND TYPE', 'TYPE t2\nx = 1\nEND TYPE', 'TYPE rt\nq AS LONG\nEND TYPE',
    'TYPE t3\nq AS {0}\nEND TYPE', 'SUB inner\nEND SUB', 'FUNCTION sb\nEND FUNCTION',
    'EXIT SUB', 'EXIT FUNCTION', 'EXIT FOR', 'EXIT DO', 'fn% = {0}', 'sb = {0}',
    'lbl: PRINT 1', '10 PRINT 1\n10 PRINT 2', 'DECLARE SUB sb ({0})',
    'REM {0}', "' {0}", 'PRINT {0} :: PRINT 2', ': : :',
    '{0} AS INTEGER', 'zz AS {0}', 'IF n% THEN zz AS LONG',
    'TYPE t4\nq AS t4\nEND TYPE\nDIM zz AS t4',
    'TYPE t4\nq AS t4\nEND TYPE\nDIM zz(2) AS t4\nzz(1).q.q = 1',
    'TYPE t5\nx AS t6\nEND TYPE\nTYPE t6\ny AS t5\nEND TYPE\nDIM zz AS t5',
    'TYPE t7\nx AS {0}\nEND TYPE\nDIM zz AS t7\nPRINT zz.x',
    'TYPE t8\n{0} AS LONG\nEND TYPE\nDIM zz AS t8',
    'NEXT {0}', 'FOR {0} = 1 TO 2\nNEXT {0}', 'SWAP {0}, {1}',
    'x = {0} < {1}', 'IF {0} = {1} THEN PRINT 1',
]
SITES = ['{body}', 'IF n% THEN\n{body}\nEND IF',
         'FOR k9 = 1 TO 1\n{body}\nNEXT',
         'SELECT CASE n%\nCASE 1\n{body}\nEND SELECT',
         'DO\n{body}\nLOOP UNTIL n%', 'WHILE n% = 0\n{body}\nWEND',
         'IF n% THEN {body} ELSE {body}']


CONTEXT_BODIES = ['EXIT FOR', 'EXIT DO', 'EXIT SUB', 'EXIT FUNCTION', 'NEXT',
                  'WEND', 'LOOP', 'END IF', 'ELSE', 'ELSEIF n% THEN',
                  'CASE 1', 'CASE ELSE', 'END SELECT', 'RETURN', 'RESUME',
                  'RESUME NEXT', 'END SUB', 'DATA 1', 'STATIC q7',
                  'DIM SHARED q8', 'TYPE q9\nz AS LONG\nEND TYPE']


EXTREME = ['1D+300', '-1D+300', '3.402823E+38', '-3.402823E+38', '1D-320',
           '3.5D+38', '1E+38 * 10', '32767', '-32768', '32768', '-32769',
           '2147483647', '-2147483648', '2147483648#', '1D+308 * 10',
           '32767.4', '32767.5', '-32768.5', '2147483647.5#', '1E+10']
EXTREME_TEMPLATES = [
    'x% = {0}', 'x& = {0}', 'x! = {0}', 'x# = {0}', 'CONST c% = {0}',
    'CONST c! = {0}', 'CONST c# = {0}', 'arr({0}) = 1', 'DIM z({0})',
    'PRINT {0}; CINT({0}); CSNG({0})', 'CALL sb({0}, "a")', 'x = fn%({0})',
    'FOR i% = 1 TO {0}\nEXIT FOR\nNEXT', 'FOR i! = {0} TO 1\nNEXT',
    'SELECT CASE n%\nCASE {0}\nEND SELECT', 'LOCATE {0}', 'r.fa = {0}',
    'x! = -({0})', 'x! = {0} + 0', 'IF {0} THEN PRINT 1', 'x$ = CHR$({0})',
    'x$ = SPACE$({0})', 'DATA {0}\nREAD x!',
]


def catalogue():
    out = []
    for tpl in TEMPLATES:
        nslots = 2 if '{1}' in tpl else 1 if '{0}' in tpl else 0
        fills = []
        if nslots == 0:
            fills = [()]
        elif nslots == 1:
            fills = [(f,) for f in FILLERS.values()]
        else:
            base = ('7', '7')
            for f in FILLERS.values():
                fills.append((f, base[1]))
                fills.append((base[0], f))
            fills.append(('"t"', '"t"'))
            fills.append(('', ''))
            fills.append(('arr', 'arr'))
            fills.append(('r', 'r2'))
            fills.append(('sarr$', 'arr'))
            fills.append(('f0', 'kc'))
        for fl in fills:
            try:
                body = tpl.format(*fl)
            except (IndexError, KeyError):
                continue
            out.append(body)
    return out


def program_of(body, site, in_sub):
    inner = SITES[site].replace('{body}', body)
    if in_sub:
        return (PRELUDE + 'CALL host\n' + POSTLUDE +
                'SUB host\nDIM arr2(2)\n' + inner + '\nEND SUB\n')
    return PRELUDE + inner + '\n' + POSTLUDE


def items(cfg):
    import random
    rng = random.Random(derive_seed(ID, cfg.get('seed', 1), 0, 'items'))
    out = []
    for body in catalogue():
        out.append((body, 0, False))
        out.append((body, rng.randrange(1, len(SITES)), False))
        out.append((body, rng.randrange(0, len(SITES)), True))
    if cfg['tier'] == 'quick':
        rng.shuffle(out)
        out = out[:cfg['quick_sample']]
    # frames at the 16-bit limit of variable operands, with the statements
    # that allocate hidden or implicit variables: in both tiers
    for n in range(65480, 65536, 4):
        for tail in ('FOR i9 = 1 TO 2\nNEXT',
                     'SELECT CASE n%\nCASE 1\nEND SELECT',
                     'q1 = 1: q2 = 2: q3 = 3: q4 = 4: q5 = 5',
                     'DIM q6(1 TO 3)'):
            out.append(('DIM zbig(1 TO %d) AS INTEGER\n%s' % (n, tail), 0,
                        False))
    # record types that contain themselves: in both tiers
    for body in ('TYPE t4\nq AS t4\nEND TYPE\nDIM zz AS t4',
                 'TYPE t4\nq AS t4\nEND TYPE\nDIM zz(2) AS t4\n'
                 'zz(1).q.q = 1',
                 'TYPE t4\nq AS LONG\nw AS t4\nEND TYPE\nDIM SHARED zz AS t4',
                 'TYPE t5\nx AS t6\nEND TYPE\nTYPE t6\ny AS t5\nEND TYPE\n'
                 'DIM zz AS t5',
                 'TYPE t4\nq AS t4\nEND TYPE'):
        out.append((body, 0, False))
        out.append((body, 0, True))
    # extreme constants into every numeric target type: in both tiers
    for v in EXTREME:
        for tpl in EXTREME_TEMPLATES:
            out.append((tpl.format(v), 0, False))
    # context-sensitive statements: at every site, in both tiers
    for body in CONTEXT_BODIES:
        for site in range(len(SITES)):
            for in_sub in (False, True):
                out.append((body, site, in_sub))
    return out


# ---------------------------------------------------------------- oracle

def totality(text, audit=False):
    """-> (failures, info)"""
    failures = []
    info = {'parsed': False, 'kinds': set(), 'reject_line': None}
    for cfg_ in CONFIGS:
        c = X.compile_one(text, *cfg_)
        name = X.cfg_name(cfg_)
        info['kinds'].add(c.kind)
        if c.kind == 'timeout':
            info['inconclusive'] = 'compile_timeout'
            continue
        if c.kind == 'host_exc':
            failures.append(('%s:%s' % (c.stage, c.bucket()), {
                'config': name, 'msg': c.msg, 'tb': c.tb[-1200:]}))
            continue
        if c.kind == 'rejected':
            if not c.is_syntax:
                info['parsed'] = True
            if c.loc is None:
                failures.append(('no_position:%s' % c.category, {
                    'config': name, 'msg': c.msg}))
            elif not (0 <= c.loc <= len(text)):
                failures.append(('position_outside_text:%s' % c.category, {
                    'config': name, 'loc': c.loc, 'len': len(text)}))
            else:
                info['reject_line'] = text[:c.loc].count('\n') + 1
            continue
        info['parsed'] = True
    seen = {}
    for b, d in failures:
        if b in seen:
            seen[b].setdefault('also', []).append(d['config'])
        else:
            seen[b] = d
    return list(seen.items()), info


def result(text, gen_kind):
    failures, info = totality(text)
    nontrivial = info['parsed'] or (info['reject_line'] or 0) > 1
    cls = ['gen:' + gen_kind] + sorted('out:' + k for k in info['kinds'])
    fl = [{'bucket': b, 'detail': d, 'case': {'text': text}}
          for b, d in failures]
    key = digest(text)
    return {'key': key, 'nontrivial': nontrivial, 'classes': cls,
            'failures': fl, 'inconclusive': info.get('inconclusive'),
            'sample': {'source': text, 'generator': gen_kind}
            if nontrivial and key[0] == '0' else None}


def check(case, cfg):
    kind, text = case
    lines = text.split('\n')
    if len(lines) > 40:
        text = '\n'.join(lines[:40]) + '\n'
    return result(text, kind)


def check_item(item, cfg):
    body, site, in_sub = item
    return result(program_of(body, site, in_sub), 'catalogue')


def replay(obj, cfg):
    failures, info = totality(obj['text'])
    return {'failures': [{'bucket': b, 'detail': d, 'case': obj}
                         for b, d in failures]}


def shrink(failure, cfg):
    """Line-wise then token-wise deletion keeping the same bucket."""
    text = failure['case']['text']
    bucket = failure['bucket']

    def still(t):
        fs, _ = totality(t)
        return any(b == bucket for b, _ in fs)
    budget = [60]

    def reduce(parts, joiner):
        i = 0
        while i < len(parts) and budget[0] > 0:
            cand = parts[:i] + parts[i + 1:]
            budget[0] -= 1
            if cand and still(joiner.join(cand)):
                parts = cand
            else:
                i += 1
        return parts
    lines = reduce(text.split('\n'), '\n')
    text2 = '\n'.join(lines)
    fs, _ = totality(text2)
    for b, d in fs:
        if b == bucket:
            return {'bucket': b, 'detail': d, 'case': {'text': text2}}
    return failure
