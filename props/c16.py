"""C16 - Numbers survive conversion to text and back.

Values are injected exactly into a compiled driver program (SINGLE through
the scripted RND device, the other types through DATA read by the machine's
own float()/int()), which prints x, STR$(x), VAL(STR$(x)) and -x.  A second
driver READs and INPUTs the produced texts back.  Oracle: exact INTEGER/LONG
round trip; for SINGLE/DOUBLE a validity predicate with exact rationals."""
import math
import re
import struct
from fractions import Fraction

from qv import run as X
from qv.runner import digest, derive_seed

ID = 'C16'
LEVEL = 'exploration'
RULE = ('INTEGER: all 65 536 values (exhaustive, both tiers); LONG: powers '
        'of two and ten +-1, type limits, seeded values; SINGLE / DOUBLE: '
        'every power of two and ten in range, type limits, subnormals, the '
        'neighbours (+-1 ulp) of every rounding boundary d.5 x 10^k at the 7 '
        '/ 15-17 digit positions, seeded bit patterns (finite only); both '
        'signs.  Each value is printed by PRINT x, STR$(x), PRINT -x and read '
        'back by VAL, READ and INPUT.  Whole numbers around every power of '
        'two and ten are also printed as LONG, SINGLE and DOUBLE side by '
        'side in one program, in three orders.  Non-trivial: the value has >= 2 '
        'significant digits or needs exponent form.  Distinct by (type, '
        'value).')
ASSUMPTIONS = [
    'values reach the driver exactly: SINGLE through the scripted RND device, '
    'INTEGER / LONG / DOUBLE through DATA text converted by the data '
    "device's int()/float()",
]
DIGITS = {'!': 7, '#': 17}
NUMERAL = re.compile(r'^([ -])(\d*)(?:\.(\d*))?(?:([ED])([+-])(\d+))?$')


def f32(x):
    return struct.unpack('>f', struct.pack('>f', x))[0]


def f32_bits(b):
    return struct.unpack('>f', struct.pack('>I', b))[0]


def f64_bits(b):
    return struct.unpack('>d', struct.pack('>Q', b))[0]


def next32(v, d):
    b = struct.unpack('>I', struct.pack('>f', v))[0]
    return f32_bits(b + d)


def next64(v, d):
    b = struct.unpack('>Q', struct.pack('>d', v))[0]
    return f64_bits(b + d)


def values_for(t, tier, seed):
    import random
    rng = random.Random(derive_seed(ID, seed, 0, 'values' + t))
    quick = tier == 'quick'
    if t == '%':
        return list(range(-32768, 32768))
    if t == '&':
        vs = set([0, 1, -1, 2147483647, -2147483648, 32767, 32768, -32769])
        for k in range(31):
            for d in (-1, 0, 1):
                vs.add(2 ** k + d)
                vs.add(-(2 ** k) + d)
        for k in range(10):
            for d in (-1, 0, 1):
                vs.add(10 ** k + d)
                vs.add(-(10 ** k) + d)
        for _ in range(4000 if quick else 100000):
            vs.add(rng.randrange(-2 ** 31, 2 ** 31))
        return sorted(v for v in vs if -2 ** 31 <= v < 2 ** 31)
    vs = set([0.0])
    if t == '!':
        for k in range(-149, 128):
            vs.add(f32(2.0 ** k))
        for k in range(-45, 39):
            v = f32(float('1e%d' % k))
            for d in (-1, 0, 1):
                vs.add(next32(v, d))
        vs.update([f32(3.4028234663852886e38), f32_bits(1), f32_bits(0x7fffff),
                   f32_bits(0x800000), 16777216.0, 16777215.0, 8388608.5,
                   0.1, 0.5, 1.5, 2.5, 1234567.0, 12345678.0, 0.0001234567])
        for k in range(-38, 32):
            for dgt in range(1, 10):
                # neighbours of the 7-digit rounding boundary d.dddddd5 x 10^k
                base = Fraction(dgt * 1000000 + 5, 10) * Fraction(10) ** (k - 5)
                try:
                    v = f32(float(base))
                except OverflowError:
                    continue
                if v == 0 or math.isinf(v):
                    continue
                for d in (-1, 0, 1):
                    vs.add(next32(v, d))
        n = 6000 if quick else 100000
        while n > 0:
            v = f32_bits(rng.getrandbits(32))
            if math.isfinite(v):
                vs.add(v)
                n -= 1
        out = [v for v in vs if math.isfinite(v)]
    else:
        for k in range(-1074, 1024):
            vs.add(2.0 ** k)
        for k in range(-323, 309):
            v = float('1e%d' % k)
            for d in (-1, 0, 1):
                vs.add(next64(v, d))
        vs.update([1.7976931348623157e308, 5e-324, 2.2250738585072014e-308,
                   9007199254740993.0, 0.1, 0.5, 1.5, 2.5, 123456789012345.0,
                   1234567890123456.0, 12345678901234567.0, 0.1 + 0.2])
        for k in (-300, -100, -20, -5, -1, 0, 1, 5, 14, 15, 16, 17, 100, 300):
            for dgt in range(1, 10):
                for nd in (15, 16, 17):
                    base = (Fraction(dgt * 10 ** (nd - 1) + 5, 10) *
                            Fraction(10) ** (k - nd + 2))
                    try:
                        v = float(base)
                    except OverflowError:
                        continue
                    if v == 0 or math.isinf(v):
                        continue
                    for d in (-1, 0, 1):
                        vs.add(next64(v, d))
        n = 6000 if quick else 100000
        while n > 0:
            v = f64_bits(rng.getrandbits(64))
            if math.isfinite(v):
                vs.add(v)
                n -= 1
        out = [v for v in vs if math.isfinite(v)]
    out = sorted(set(out) | {-v for v in out})
    return out


def configure(tier, avoid):
    return {'examples': 0, 'tier': tier, 'batch': 512,
            'bounds': {'integer': 'all 65536', 'batch': 512},
            'tick_budget': 2000000, 'exhaustive': False}


def setup_worker(cfg):
    X.set_parse_cache(True)


def items(cfg):
    out = []
    for t in '%&!#':
        vs = values_for(t, cfg['tier'], cfg.get('seed', 1))
        for k in range(0, len(vs), cfg['batch']):
            out.append((t, vs[k:k + cfg['batch']]))
    # the same whole numbers printed as LONG, SINGLE and DOUBLE in one
    # program, in changing order (the text depends on the type)
    xs = []
    for k in range(0, 31):
        for d in (-1, 0, 1):
            xs.append(2 ** k + d)
    for k in range(0, 10):
        for d in (-1, 0, 1):
            xs.append(10 ** k + d)
    xs = sorted({x for x in xs if 0 <= x <= 2147483647})
    xs += [-x for x in xs if x]
    for k in range(0, len(xs), 64):
        out.append(('x', xs[k:k + 64]))
    return out


def cross_type_batch(values, cfg):
    """-> failures for one batch of whole numbers printed under three
    types."""
    n = len(values)
    data = ''.join('DATA %s\n' % ', '.join(str(v) for v in values[k:k + 8])
                   for k in range(0, n, 8))
    prog = ('FOR i& = 1 TO %d\nREAD d#\nl& = d#\ns! = d#\n'
            'PRINT l&\nPRINT s!\nPRINT d#\nPRINT s!; l&; d#\n'
            'PRINT d#; l&; s!\nNEXT\n%s' % (n, data))
    c = X.compile_one(prog, 0, False)
    if c.kind != 'accepted':
        return [('driver_not_accepted', {'got': repr(c)})]
    r = X.execute(c.module, X.Script(), tick_budget=cfg['tick_budget'])
    prints = [e[1] for e in r.events if e[0] == 'print']
    failures = []
    for k, v in enumerate(values):
        grp = prints[5 * k:5 * k + 5]
        if len(grp) < 5:
            failures.append(('cross_type:driver_stopped', {
                'value': v, 'outcome': r.outcome[:2]}))
            break
        texts = {}
        for t, line in zip('&!#', grp[:3]):
            texts[t] = line[:-3] if line.endswith(' \r\n') else line
        vt = {'&': v, '!': f32(float(v)), '#': float(v)}
        for t in '&!#':
            numeral = texts[t]
            if t == '&':
                if numeral != (' ' if v >= 0 else '-') + str(abs(v)):
                    failures.append(('cross_type:integer_text', {
                        'value': v, 'text': numeral}))
                continue
            m = NUMERAL.match(numeral)
            if not m:
                failures.append(('cross_type:not_a_numeral:' + t, {
                    'value': v, 'text': numeral}))
                continue
            nd = sig_digits(m.group(2), m.group(3))
            tv, unit = text_value(m)
            mant, _ = math.frexp(vt[t])
            if nd > DIGITS[t] or (abs(tv - Fraction(vt[t])) > unit / 2 and
                                  abs(mant) != 0.5):
                failures.append(('cross_type:text:' + t, {
                    'value': v, 'text': numeral}))
        # the combined lines show the same numerals in the other orders
        want4 = texts['!'] + ' ' + texts['&'] + ' ' + texts['#'] + ' \r\n'
        want5 = texts['#'] + ' ' + texts['&'] + ' ' + texts['!'] + ' \r\n'
        if grp[3] != want4 or grp[4] != want5:
            failures.append(('cross_type:text_depends_on_order', {
                'value': v, 'single': texts['!'], 'long': texts['&'],
                'double': texts['#'], 'line4': grp[3], 'line5': grp[4]}))
    seen = {}
    for b, d in failures:
        seen.setdefault(b, d)
    return list(seen.items())


def data_text(t, v):
    if t in '%&':
        return str(v)
    return repr(float(v))


def stage1_program(t, values):
    n = len(values)
    neg = 'y%s = -x%s: PRINT y%s' % (t, t, t)
    if t == '!':
        get = 'x! = RND'
        data = ''
    else:
        get = 'READ x%s' % t
        data = ''.join('DATA %s\n' % ', '.join(
            data_text(t, v) for v in values[k:k + 8])
            for k in range(0, n, 8))
    # (the most negative INTEGER / LONG has no negation of its type)
    guard = {'%': 'x% > -32768', '&': 'x& > -2147483647', '!': '-1',
             '#': '-1'}[t]
    return ('FOR i& = 1 TO %d\n%s\nPRINT x%s\nPRINT STR$(x%s)\n'
            'PRINT VAL(STR$(x%s))\nIF %s THEN %s ELSE '
            'PRINT 0\nNEXT\n%s' % (n, get, t, t, t, guard, neg, data))


def stage2_program(t, texts):
    n = len(texts)
    data = ''.join('DATA %s\n' % ', '.join(texts[k:k + 8])
                   for k in range(0, n, 8))
    return ('FOR i& = 1 TO %d\nREAD x%s\nPRINT x%s\nINPUT y%s\nPRINT y%s\n'
            'NEXT\n%s' % (n, t, t, t, t, data))


def sig_digits(intpart, frac):
    d = (intpart or '') + (frac or '')
    d = d.lstrip('0')
    return len(d)


def text_value(m):
    sign, ip, fr, ec, es, ed = m.groups()
    ip = ip or ''
    fr = fr or ''
    val = Fraction(int((ip + fr) or '0'), 10 ** len(fr))
    exp10 = 0
    if ec:
        exp10 = int(ed) * (1 if es == '+' else -1)
        val *= Fraction(10) ** exp10
    unit = Fraction(10) ** (exp10 - len(fr))
    if sign == '-':
        val = -val
    return val, unit


def judge_value(t, v, txt_print, txt_str, back, txt_neg):
    """-> list of (bucket, detail) for one value."""
    out = []
    if txt_print is None:
        return [('missing_output', {})]
    body = txt_print
    if not body.endswith(' \r\n'):
        out.append(('print_shape', {'text': txt_print}))
        return out
    numeral = body[:-3]
    if txt_str is not None and txt_str.rstrip('\r\n') != numeral:
        out.append(('print_vs_str', {'print': numeral,
                                     'str': txt_str.rstrip('\r\n')}))
    if t in '%&':
        want = (' ' if v >= 0 else '-') + str(abs(v))
        if numeral != want:
            out.append(('integer_text', {'got': numeral, 'want': want}))
        if back is None or back[0] != '#' or back[1] != float(v):
            out.append(('val_roundtrip', {'back': back}))
    else:
        m = NUMERAL.match(numeral)
        if not m or (not m.group(2) and not m.group(3)):
            out.append(('not_a_numeral', {'text': numeral}))
            return out
        if (v < 0 or (v == 0 and math.copysign(1, v) < 0)) != \
                (m.group(1) == '-') and v != 0:
            out.append(('sign', {'text': numeral}))
        nd = sig_digits(m.group(2), m.group(3))
        if nd > DIGITS[t]:
            out.append(('too_many_digits', {'text': numeral, 'digits': nd}))
        tv, unit = text_value(m)
        if abs(tv - Fraction(v)) > unit / 2:
            mant, _ = math.frexp(v)
            if abs(mant) == 0.5 and abs(tv - Fraction(v)) < unit:
                # known finding (shortest round-trip digits of an exact power
                # of two; the rounding interval below it is half as wide)
                out.append(('power_of_two_shortest_digits', {
                    'text': numeral, 'value': repr(v)}))
            else:
                out.append(('text_not_within_half_unit', {
                    'text': numeral, 'value': repr(v)}))
        # reading back reproduces the value to the type's precision
        if back is None or back[0] != '#':
            out.append(('val_roundtrip', {'back': back}))
        else:
            rb = back[1]
            if t == '!':
                try:
                    rb = f32(rb)
                except OverflowError:
                    rb = float('inf')
            if not close_enough(t, v, rb):
                out.append(('val_roundtrip', {'text': numeral,
                                              'back': repr(rb),
                                              'value': repr(v)}))
    if txt_neg is not None and v != 0:
        nn = txt_neg[:-3] if txt_neg.endswith(' \r\n') else txt_neg
        if nn[1:] != numeral[1:]:
            out.append(('negation_digits', {'x': numeral, 'minus_x': nn}))
    return out


def close_enough(t, v, rb):
    if v == rb:
        return True
    if not math.isfinite(rb):
        return False
    if v == 0:
        return abs(rb) == 0
    # "to that precision": the value and what is read back agree to 7 / 17
    # significant digits.  The text is within half a unit of the 7th / 17th
    # digit of the value, and the type's nearest value to the text is within
    # half a unit of the text, so the two may differ by up to one unit.
    e = math.floor(math.log10(abs(v)))
    unit = Fraction(10) ** (e - DIGITS[t] + 1)
    return abs(Fraction(v) - Fraction(rb)) <= unit


def run_batch(t, values, cfg):
    failures = []
    nt_keys = []
    prog1 = stage1_program(t, values)
    cfgs = ((0, False),) if t != '%' else ((0, False),)
    c = X.compile_one(prog1, 0, False)
    if c.kind != 'accepted':
        return [('driver_not_accepted', {'got': repr(c)})], nt_keys, {}
    script = X.Script(rnd=list(values)) if t == '!' else X.Script()
    r = X.execute(c.module, script, tick_budget=cfg['tick_budget'])
    prints = [e for e in r.events if e[0] == 'print']
    items_ = [e for e in r.events if e[0] == 'print_items']
    produced = []
    per = 4
    for k, v in enumerate(values):
        grp = prints[per * k:per * k + per]
        igrp = items_[per * k:per * k + per]
        if len(grp) < per:
            failures.append(('driver_stopped', {
                'value': repr(v), 'outcome': r.outcome[:2],
                'stdout': r.stdout[-200:]}))
            break
        back = None
        if igrp[2][1] and igrp[2][1][0][0] == 'v':
            back = (igrp[2][1][0][1], igrp[2][1][0][2])
        neg_txt = grp[3][1]
        if (t == '%' and v <= -32768) or (t == '&' and v <= -2147483647):
            neg_txt = None
        for b, d in judge_value(t, v, grp[0][1], grp[1][1], back, neg_txt):
            d = dict(d)
            d['type'] = t
            d['value'] = repr(v)
            failures.append((b + ':' + t, d))
        produced.append(grp[0][1][:-3].strip() if grp[0][1].endswith(' \r\n')
                        else None)
        if len(str(abs(v)).replace('.', '').lstrip('0')) >= 2:
            nt_keys.append('%s:%r' % (t, v))
    # stage 2: READ and INPUT of the produced texts
    ok = [(v, p) for v, p in zip(values, produced) if p]
    if ok and len(ok) == len(values):
        prog2 = stage2_program(t, [p for _, p in ok])
        c2 = X.compile_one(prog2, 0, False)
        if c2.kind != 'accepted':
            failures.append(('stage2_not_accepted:' + t, {'got': repr(c2)}))
        else:
            r2 = X.execute(c2.module, X.Script(inputs=[p for _, p in ok]),
                           tick_budget=cfg['tick_budget'])
            it2 = [e for e in r2.events if e[0] == 'print_items']
            for k, (v, p) in enumerate(ok):
                pair = it2[2 * k:2 * k + 2]
                if len(pair) < 2:
                    failures.append(('read_input_roundtrip_stopped:' + t, {
                        'text': p, 'value': repr(v),
                        'outcome': r2.outcome[:2],
                        'stdout': r2.stdout[-200:]}))
                    break
                for which, ev in zip(('read', 'input'), pair):
                    it = ev[1][0] if ev[1] else None
                    good = it is not None and it[0] == 'v' and it[1] == t and (
                        it[2] == v if t in '%&' else close_enough(t, v, it[2]))
                    if not good:
                        failures.append(('%s_roundtrip:%s' % (which, t), {
                            'text': p, 'value': repr(v), 'got': it}))
    seen = {}
    for b, d in failures:
        seen.setdefault(b, d)
    return list(seen.items()), nt_keys, {'type:' + t: len(values)}


def check_item(item, cfg):
    t, values = item
    if t == 'x':
        fs = cross_type_batch(values, cfg)
        return {'key': None, 'nontrivial': False,
                'nontrivial_keys': ['x:%d' % v for v in values],
                'class_counts': {'cross_type_values': len(values)},
                'failures': [{'bucket': b, 'detail': d,
                              'case': {'type': 'x', 'values': [
                                  str(d.get('value'))]}}
                             for b, d in fs],
                'extra_evals': len(values) - 1}
    failures, nt_keys, counts = run_batch(t, values, cfg)
    fl = [{'bucket': b, 'detail': d,
           'case': {'type': t, 'values': [repr(v) for v in values]
                    if len(values) <= 8 else [d.get('value')]}}
          for b, d in failures]
    return {'key': None, 'nontrivial': False, 'nontrivial_keys': nt_keys,
            'class_counts': counts, 'failures': fl,
            'extra_evals': len(values) - 1,
            'sample': {'type': t, 'values': [repr(v) for v in values[:6]]}
            if digest(repr(values[:3]))[0] in '01' else None}


def replay(obj, cfg):
    t = obj['type']
    if t == 'x':
        vals = [int(s) for s in obj['values'] if s not in (None, 'None')]
        return {'failures': [{'bucket': b, 'detail': d, 'case': obj}
                             for b, d in cross_type_batch(vals, cfg)]}
    vals = []
    for s in obj['values']:
        if s is None:
            continue
        vals.append(int(s) if t in '%&' else float(s))
    failures, _, _ = run_batch(t, vals, cfg)
    return {'failures': [{'bucket': b, 'detail': d, 'case': obj}
                         for b, d in failures]}
