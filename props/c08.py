"""C08 - Debug information does not change what a program does.

Differential: for every optimisation level, the same text compiled with and
without -g must be accepted/rejected alike, have byte-identical literal, data
and global sections, and produce the same device trace and outcome (compared
only up to the first executed RESUME / RESUME NEXT, which needs the debug
section)."""
from hypothesis import strategies as st

from qv import gen, render, run as X, cases, shrink as SH

ID = 'C08'
LEVEL = 'exploration'
RULE = ('Programs drawn from the typed generator G (bias: empty IF/ELSE/'
        'ELSEIF/CASE bodies, single-line IF with ELSE, nested SELECT, '
        'several statements per line, empty loops and procedures), rendered '
        'under a drawn style, compiled at O0/O1/O2 with and without -g and '
        'run with one drawn device script; one case in four is instead a '
        'program whose ON ERROR GOTO handlers carry on with GOTO / RETURN / '
        'END and never RESUME, with failures in mid-expression inside GOSUB '
        'routines, loops and at module level.  Non-trivial: accepted, >= 1 '
        'device event, and the program contains an empty block, a '
        'single-line IF with ELSE, a SELECT, or its -g code section differs '
        'from the plain one.  Distinct by hash of (text, script).')
ASSUMPTIONS = [
    'execution is a pure function of (module, script): all I/O goes through '
    'the scripted peripherals object',
    'the parse tree is computed once per text and copied per configuration '
    '(audited: 1 case in 16 is recompiled without the cache and compared)',
]
LEVELS = (0, 1, 2)


def configure(tier, avoid):
    quick = tier == 'quick'
    p = gen.Params(
        max_stmts=14 if quick else 30, max_depth=2 if quick else 3,
        expr_depth=2, max_procs=2, empty_blocks=0.3, avoid=avoid, mixed_case_types=True,
        features={'print_using': False})
    return {'examples': 400 if quick else 3000, 'params': p,
            'bounds': {'max_stmts': p.max_stmts, 'max_depth': p.max_depth,
                       'levels': list(LEVELS)},
            'tick_budget': 60000}


def setup_worker(cfg):
    X.set_parse_cache(True)


@st.composite
def handler_programs(draw):
    """ON ERROR GOTO handlers that never RESUME (the permitted exception
    does not apply to them)."""
    from props.c10 import error_programs
    prog, stats = draw(error_programs(noresume=True))
    stats = dict(stats, on_error_without_resume=1)
    return prog, {}, stats


def strategy(cfg):
    return st.tuples(
        st.one_of(gen.programs(cfg['params']), gen.programs(cfg['params']),
                  gen.programs(cfg['params']), handler_programs()),
        gen.styles())


def check_text(text, script, cfg, audit=False):
    """The oracle on a source text.  Returns (failures, info)."""
    failures = []
    info = {'accepted': False, 'events': 0, 'code_differs': False,
            'resumed': False}
    sc = X.Script(**script)
    for lvl in LEVELS:
        a = X.compile_one(text, lvl, False)
        b = X.compile_one(text, lvl, True)
        if 'timeout' in (a.kind, b.kind):
            info['inconclusive'] = 'compile_timeout'
            continue
        if a.key() != b.key():
            failures.append(('accept:%s/%s' % (a.key()[-1], b.key()[-1]),
                             {'level': lvl, 'plain': repr(a), 'dbg': repr(b)}))
            continue
        if a.kind != 'accepted':
            continue
        info['accepted'] = True
        for sid, name in ((1, 'literals'), (2, 'data'), (3, 'globals')):
            if a.sections.get(sid) != b.sections.get(sid):
                failures.append(('section:%s' % name, {'level': lvl}))
        if a.sections.get(4) != b.sections.get(4):
            info['code_differs'] = True
        ra = _run(a.module, sc, cfg)
        rb = _run(b.module, sc, cfg)
        if 'budget' in (ra.outcome[0], rb.outcome[0]) or \
                'input_exhausted' in (ra.outcome[0], rb.outcome[0]):
            if ra.outcome[0] != rb.outcome[0]:
                failures.append(('outcome:budget-mismatch', {
                    'level': lvl, 'plain': ra.outcome[:2],
                    'dbg': rb.outcome[:2]}))
            info['inconclusive'] = ra.outcome[0]
            continue
        ea, eb = ra.events, rb.events
        cut = None
        for r in (ra, rb):
            if r.resumed_at_event is not None:
                cut = r.resumed_at_event if cut is None else \
                    min(cut, r.resumed_at_event)
        if cut is not None:
            info['resumed'] = True
            ea, eb = ea[:cut], eb[:cut]
        info['events'] = max(info['events'], len(ea))
        d = cases.first_diff(ea, eb)
        if d is not None:
            failures.append(('trace:%s' % _evkind(d), {
                'level': lvl, 'index': d[0], 'plain': d[1], 'dbg': d[2]}))
        elif cut is None and cases.outcome_key(ra.outcome) != \
                cases.outcome_key(rb.outcome):
            failures.append(('outcome:%s/%s' % (
                '-'.join(map(str, ra.outcome[:2])),
                '-'.join(map(str, rb.outcome[:2]))), {'level': lvl}))
        if audit:
            X.set_parse_cache(False)
            try:
                a2 = X.compile_one(text, lvl, False)
            finally:
                X.set_parse_cache(True)
            if a2.kind == 'timeout':
                info['inconclusive'] = 'compile_timeout'
            elif a2.kind != 'accepted' or any(
                    a2.sections.get(s) != a.sections.get(s)
                    for s in (1, 2, 3, 4)):
                import os
                dump = os.path.join(os.path.dirname(os.path.dirname(
                    os.path.abspath(__file__))), 'replays', 'C08',
                    'audit_failed.bas')
                os.makedirs(os.path.dirname(dump), exist_ok=True)
                with open(dump, 'w') as f:
                    f.write(text)
                raise RuntimeError('parse cache audit failed (level %s, '
                                   'text saved to %s): %r' % (lvl, dump, a2))
    return failures, info


def _evkind(d):
    for e in (d[1], d[2]):
        if e is not None:
            return str(e[0])
    return 'length'


def _run(module, sc, cfg):
    resumed = []

    def before(cpu, n):
        pass
    machine_events = {}
    res = X.execute(module, sc, tick_budget=cfg['tick_budget'],
                    before_tick=_ResumeWatch(resumed))
    res.resumed_at_event = resumed[0] if resumed else None
    return res


class _ResumeWatch:
    """Notes the event index at which RESUME / RESUME NEXT first executes
    (also when reached through ON ERROR RESUME NEXT)."""

    def __init__(self, out):
        self.out = out
        self.installed = False

    def __call__(self, cpu, n):
        if self.installed:
            return
        self.installed = True
        out = self.out
        impl = cpu.devices['terminal'].impl
        for name in ('_exec_errres', '_exec_errresn'):
            orig = getattr(cpu, name)

            def wrapper(orig=orig):
                if not out:
                    out.append(len(impl.events))
                return orig()
            setattr(cpu, name, wrapper)


def check(case, cfg):
    (prog, script, stats), style = case
    r = render.render(prog, style)
    text = r.text
    key = run_key(text, script)
    import os
    audit = int(key[:2], 16) < 16 or bool(os.environ.get('QV_AUDIT_ALL'))
    failures, info = check_text(text, script, cfg, audit=audit)
    shapes = cases.shape_classes(prog)
    interesting = bool(shapes & {
        'empty_if_body', 'empty_else_body', 'empty_case_body', 'empty_loop',
        'empty_proc', 'ifline_else', 'Select'}) or info['code_differs'] \
        or bool(stats.get('on_error_without_resume'))
    nontrivial = info['accepted'] and info['events'] >= 1 and interesting
    cls = sorted(shapes & {
        'empty_if_body', 'empty_else_body', 'empty_case_body', 'empty_loop',
        'empty_proc', 'ifline_else', 'Select', 'elseif', 'Proc'})
    if info['code_differs']:
        cls.append('code_section_differs_with_g')
    if info['accepted']:
        cls.append('accepted')
    if info['resumed']:
        cls.append('executed_resume')
    if stats.get('on_error_without_resume'):
        cls.append('on_error_handler_without_resume')
    enc = None
    fl = []
    if failures:
        enc = cases.encode_case(prog, script, style)
        for bucket, detail in failures:
            fl.append({'bucket': bucket, 'detail': detail, 'case': enc})
    return {
        'key': key, 'nontrivial': nontrivial, 'classes': cls,
        'failures': fl, 'inconclusive': info.get('inconclusive'),
        'sample': cases.sample_of(text, script) if nontrivial else None,
    }


def run_key(text, script):
    from qv.runner import digest
    return digest([text, script])


def replay(obj, cfg):
    failures, info = check_text(obj['text'], obj.get('script') or {}, cfg)
    return {'failures': [{'bucket': b, 'detail': d, 'case': obj}
                         for b, d in failures]}


def shrink(failure, cfg):
    prog, script, style, text = cases.decode_case(failure['case'])
    if prog is None:
        return failure
    bucket = failure['bucket']

    def still(p):
        t = render.render(p, style).text
        fs, _ = check_text(t, script, cfg)
        return any(b == bucket for b, _ in fs)
    small = SH.shrink_program(prog, still, max_tests=60)
    t = render.render(small, style).text
    fs, _ = check_text(t, script, cfg)
    for b, d in fs:
        if b == bucket:
            return {'bucket': bucket, 'detail': d,
                    'case': cases.encode_case(small, script, style)}
    return failure
