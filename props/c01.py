"""C01 - Compiled programs do what their QBASIC source says.

Oracle: the independent reference interpreter R (qv/ref.py) over the
generator's own AST; every configuration's event trace and outcome must equal
R's."""
from hypothesis import strategies as st

from qv import gen, render, run as X, cases, oracle, shrink as SH
from qv import ref as RF

ID = 'C01'
LEVEL = 'exploration'
RULE = ('Well-typed terminating programs drawn from the typed generator G '
        '(all statement kinds of the reference subset, expressions over all '
        'operators and built-ins, procedures with by-reference / by-value '
        'arguments, recursion, arrays, records, CONST, DEFtype, STATIC / '
        'SHARED), rendered in a drawn style, with a drawn device script; '
        'compiled at O0/O1/O2 with and without -g; trace (typed PRINT items, '
        'prompts, INPUT, DATA reads, device calls) and outcome (end, or '
        'run-time error class and statement line) compared with the '
        'reference interpreter R; each program with an IF is judged a second '
        'time with its IF conditions negated (the skipped branches run).  '
        'Plus a catalogue of run-time evaluations judged by R: every operator '
        'x every pair of operand types x 8-10 boundary values per type held '
        'in variables, unary operators, ABS / INT / CINT / CLNG, assignment '
        'conversions between all numeric types, and the string built-ins '
        'over boundary arguments (complete in the thorough tier; in quick '
        'the binary-operator family is a seeded sample of 1200).  Non-trivial: accepted, R supports it, >= 3 '
        'events and >= 2 of {procedure call, loop with >= 2 iterations, '
        'array or record access, implicit conversion, GOTO/GOSUB, run-time '
        'error outcome}.  Distinct by hash of (text, script).')
ASSUMPTIONS = [
    'R is an independent implementation of the language semantics; its '
    'agreement with the repository\'s own expectations is checked by '
    'tools/calibrate.py',
    'agreed-subset exclusions (DESIGN.md 4.1) are generator switches; '
    'programs R cannot judge are counted as inconclusive',
    'parse tree computed once per text and copied per configuration '
    '(audited in C08)',
]
CONFIGS = X.ALL_CONFIGS


def configure(tier, avoid):
    quick = tier == 'quick'
    p = gen.Params(
        max_stmts=14 if quick else 28, max_depth=2 if quick else 3,
        expr_depth=3 if quick else 4, max_procs=2 if quick else 3,
        edgy=0.05, avoid=avoid)
    return {'examples': 320 if quick else 3000, 'params': p,
            'bounds': {'max_stmts': p.max_stmts, 'max_depth': p.max_depth,
                       'expr_depth': p.expr_depth, 'configs': [
                           X.cfg_name(c) for c in CONFIGS]},
            'tick_budget': 100000, 'avoid': avoid, 'tier': tier}


def setup_worker(cfg):
    X.set_parse_cache(True)


def strategy(cfg):
    return st.tuples(gen.programs(cfg['params']), gen.styles())


def judge(prog, script, style, cfg, configs=CONFIGS):
    """-> (failures [(bucket, detail)], info)"""
    rendered = render.render(prog, style)
    text = rendered.text
    info = {'accepted': False, 'events': 0, 'features': set(),
            'inconclusive': None, 'text': text}
    failures = []
    it = RF.Interp(prog, script, rendered)
    evs, out = it.run()
    info['features'] = set(it.used_features)
    info['ref_outcome'] = out[0] if out[0] != 'error' else 'error:' + out[1]
    info['events'] = len(evs)
    if out[0] in ('unsupported', 'budget', 'input_exhausted'):
        # outside the reference subset: nothing is judged (compiler
        # totality on such inputs is C06's business)
        info['inconclusive'] = 'inconclusive:ref_' + out[0] + (
            ':' + str(out[1])[:40] if out[0] == 'unsupported' else '')
        return [], info
    sc = X.Script(**script)
    for cfg_ in configs:
        c = X.compile_one(text, *cfg_)
        name = X.cfg_name(cfg_)
        if c.kind == 'timeout':
            info['inconclusive'] = 'inconclusive:compile_timeout'
            continue
        if c.kind == 'rejected':
            failures.append(('rejected:%s' % c.category,
                             {'config': name, 'msg': c.msg, 'loc': c.loc}))
            continue
        if c.kind == 'host_exc':
            failures.append(('compile_exc:%s' % c.bucket(),
                             {'config': name, 'stage': c.stage,
                              'tb': c.tb[-1200:]}))
            continue
        info['accepted'] = True
        rr = X.execute(c.module, sc, tick_budget=cfg['tick_budget'])
        verdict, bucket, detail, _ = oracle.compare(
            prog, script, rendered, c.module, rr, ref_result=(it, evs, out))
        if verdict.startswith('inconclusive'):
            info['inconclusive'] = verdict
            continue
        if verdict == 'mismatch':
            detail = dict(detail or {})
            detail['config'] = name
            failures.append((bucket, detail))
    # one entry per bucket
    seen = {}
    for b, d in failures:
        if b in seen:
            seen[b].setdefault('also', []).append(d.get('config'))
        else:
            seen[b] = d
    return list(seen.items()), info


def check(case, cfg):
    (prog, script, stats), style = case
    failures, info = judge(prog, script, style, cfg)
    flipped_run = False
    if not failures and info['accepted'] and not info['inconclusive']:
        # the same program with its IF conditions negated: the branches the
        # first run skipped are executed and judged too
        from qv.variants import flipped
        fprog = flipped(prog)
        if fprog is not None:
            ffail, finfo = judge(fprog, script, style, cfg)
            flipped_run = True
            info['features'] = set(info['features']) | set(
                finfo['features'])
            if ffail:
                failures = ffail
                prog = fprog
    from qv.runner import digest
    key = digest([info['text'], script])
    f = info['features']
    score = sum([
        'call' in f, 'loop2' in f, bool(f & {'array', 'record'}) or
        stats.get('array_access', 0) + stats.get('field_access', 0) > 0,
        'implicit_conv' in f, bool(f & {'goto', 'gosub'}),
        info['ref_outcome'].startswith('error')])
    nontrivial = info['accepted'] and not info['inconclusive'] and \
        info['events'] >= 3 and score >= 2
    cls = ['ref:' + info['ref_outcome']] + sorted('f:' + x for x in f)
    if flipped_run:
        cls.append('flipped_variant_judged')
    for k in ('byref_arg', 'recursion', 'array_access', 'field_access',
              'func_call', 'sub_call', 'select', 'gosub', 'goto', 'input',
              'read', 'device', 'deftype', 'const', 'static_decl',
              'shared_decl', 'nested_record', 'dynamic_array'):
        if stats.get(k):
            cls.append('g:' + k)
    fl = []
    if failures:
        enc = cases.encode_case(prog, script, style)
        for b, d in failures:
            fl.append({'bucket': b, 'detail': d, 'case': enc})
    return {'key': key, 'nontrivial': nontrivial, 'classes': cls,
            'failures': fl, 'inconclusive': info['inconclusive'],
            'extra_evals': 1 if flipped_run else 0,
            'sample': cases.sample_of(info['text'], script,
                                      ref_outcome=info['ref_outcome'])
            if nontrivial else None}


def judge_text(obj, cfg):
    """Plain regression check of a hand-written witness: a source text with
    the expected printed text and outcome (derived by hand from the language
    definition), bypassing the generator and R."""
    exp = obj['expect']
    failures = []
    sc = X.Script(**(obj.get('script') or {}))
    for cfg_ in CONFIGS:
        if obj.get('only_dbg') and not cfg_[1]:
            continue          # RESUME needs the debug section
        if obj.get('only_nodbg') and cfg_[1]:
            continue
        c = X.compile_one(obj['text'], *cfg_)
        name = X.cfg_name(cfg_)
        if c.kind != 'accepted':
            failures.append(('witness:not_accepted', {'config': name,
                                                      'got': repr(c)}))
            continue
        rr = X.execute(c.module, sc, tick_budget=cfg['tick_budget'])
        printed = ''.join(e[1] for e in rr.events if e[0] == 'print')
        if 'prints' in exp and printed != exp['prints']:
            failures.append(('witness:output', {
                'config': name, 'got': printed, 'want': exp['prints']}))
        want = exp.get('outcome', 'end')
        got = rr.outcome[0] if rr.outcome[0] != 'trap' else rr.outcome[1]
        if got != want:
            failures.append(('witness:outcome', {
                'config': name, 'got': rr.outcome[:4], 'want': want}))
        if 'line' in exp and cfg_[1] and rr.outcome[0] == 'trap' and \
                rr.outcome[3] != exp['line']:
            failures.append(('witness:line', {
                'config': name, 'got': rr.outcome[3], 'want': exp['line']}))
    seen = {}
    for b, d in failures:
        seen.setdefault(b, d)
    return list(seen.items())


def replay(obj, cfg):
    if 'expect' in obj:
        return {'failures': [{'bucket': b, 'detail': d, 'case': obj}
                             for b, d in judge_text(obj, cfg)]}
    prog, script, style, text = cases.decode_case(obj)
    failures, info = judge(prog, script, style, cfg)
    return {'failures': [{'bucket': b, 'detail': d, 'case': obj}
                         for b, d in failures]}


def shrink(failure, cfg):
    prog, script, style, text = cases.decode_case(failure['case'])
    bucket = failure['bucket']

    def still(p):
        fs, _ = judge(p, script, style, cfg)
        return any(b == bucket for b, _ in fs)
    small = SH.shrink_program(prog, still, max_tests=70)
    fs, _ = judge(small, script, style, cfg)
    for b, d in fs:
        if b == bucket:
            return {'bucket': bucket, 'detail': d,
                    'case': cases.encode_case(small, script, style)}
    return failure


# ---------------------------------------------------------------------------
# Run-time operator / built-in catalogue: every operator over every pair of
# operand types and every numeric / string built-in R models, with boundary
# values held in *variables* (so nothing is folded at compile time), judged by
# R.  Thorough: complete; quick: a seeded sample.
import itertools            # noqa: E402
from qv import ast as A     # noqa: E402

RT_VALS = {
    '%': [0, 1, -1, 2, 3, 255, 32767, -32768],
    '&': [0, 1, -1, 7, 32768, 65536, 2147483647, -2147483648],
    '!': [0.0, 0.5, 1.5, 2.5, -0.5, -3.5, 0.10000000149011612, 1e10,
          3.4028234663852886e+38, 16777216.0],
    '#': [0.0, 0.5, 1.5, 2.5, -2.5, 0.1, 32767.5, 2147483647.5, 1e100,
          1.7976931348623157e+308],
}
RT_BINOPS = ['+', '-', '*', '/', '\\', 'MOD', '^', '=', '<>', '<', '>', '<=',
             '>=', 'AND', 'OR', 'XOR', 'EQV', 'IMP']
RT_NUMFUNCS = ['ABS', 'INT', 'CINT', 'CLNG']
RT_STRS = ['', 'a', 'abc', 'Hello, World', ' x ']
RT_INTS = [-1, 0, 1, 2, 3, 12, 13, 255, 256, 32767]


def _lit(t, v):
    """Expression whose value is v (any sign) of type t."""
    if t in '%&':
        # always through a DOUBLE literal: -32768 / -2147483648 have no
        # literal of their own type
        e = A.Num('#', float(abs(v)), None)
    else:
        e = A.Num(t, abs(v), None)
    if v < 0 or (isinstance(v, float) and str(v).startswith('-')):
        e = A.Un('neg', e, e.t)
    return e


def _v(name):
    return A.LV(name, [], [], name[-1])


def runtime_items():
    out = []
    for lt, rt in itertools.product('%&!#', repeat=2):
        for op in RT_BINOPS:
            if op == '/' and '&' in (lt, rt):
                continue            # agreed subset (SINGLE vs DOUBLE result)
            if op == '^' and lt in '%&' and rt in '%&':
                continue            # agreed subset
            for a in RT_VALS[lt]:
                for b in RT_VALS[rt]:
                    out.append(('bin', op, lt, a, rt, b))
    for t in '%&!#':
        for a in RT_VALS[t]:
            for op in ('neg', 'NOT', 'pos'):
                out.append(('un', op, t, a))
            for fn in RT_NUMFUNCS:
                if fn == 'INT' and abs(a) > 2147483647:
                    continue        # agreed subset
                out.append(('fn', fn, t, a))
            for tt in '%&!#':
                out.append(('conv', tt, t, a))
    for s_ in RT_STRS:
        for n in RT_INTS:
            for fn in ('LEFT$', 'SPACE$', 'CHR$', 'STRING$', 'MID2', 'MID3',
                       'INSTR3'):
                out.append(('sfn', fn, s_, n))
        for fn in ('LEN', 'ASC', 'UCASE$', 'LCASE$', 'LTRIM$', 'VAL'):
            out.append(('sfn1', fn, s_))
        for s2 in RT_STRS:
            out.append(('sfn2', 'INSTR', s_, s2))
            for op in ('+', '=', '<', '>=', '<>'):
                out.append(('sbin', op, s_, s2))
    return out


def runtime_program(item):
    kind = item[0]
    body = []
    if kind == 'bin':
        _, op, lt, a, rt, b = item
        body = [A.Assign(_v('a' + lt), _lit(lt, a)),
                A.Assign(_v('b' + rt), _lit(rt, b))]
        rel = op in ('=', '<>', '<', '>', '<=', '>=')
        e = A.Bin(op, _v('a' + lt), _v('b' + rt),
                  '%' if rel else A.wider(lt, rt))
    elif kind == 'un':
        _, op, t, a = item
        body = [A.Assign(_v('a' + t), _lit(t, a))]
        e = A.Un(op, _v('a' + t), t)
    elif kind == 'fn':
        _, fn, t, a = item
        body = [A.Assign(_v('a' + t), _lit(t, a))]
        e = A.BCall(fn, [_v('a' + t)], {'CINT': '%', 'CLNG': '&'}.get(fn, t))
    elif kind == 'conv':
        _, tt, t, a = item
        body = [A.Assign(_v('a' + t), _lit(t, a)),
                A.Assign(_v('c' + tt), _v('a' + t))]
        e = _v('c' + tt)
    elif kind == 'sfn':
        _, fn, s_, n = item
        body = [A.Assign(_v('s$'), A.Str(s_)), A.Assign(_v('n%'), _lit('%', n))]
        sv, nv = _v('s$'), _v('n%')
        if fn == 'LEFT$':
            e = A.Bin('+', A.BCall('LEFT$', [sv, nv], '$'), A.Str('|'), '$')
        elif fn == 'SPACE$':
            e = A.Bin('+', A.BCall('SPACE$', [nv], '$'), A.Str('|'), '$')
        elif fn == 'CHR$':
            e = A.BCall('ASC', [A.BCall('CHR$', [nv], '$')], '%')
        elif fn == 'STRING$':
            e = A.Bin('+', A.BCall('STRING$', [nv, A.Num('%', 65, '65')],
                                   '$'), A.Str('|'), '$')
        elif fn == 'MID2':
            e = A.Bin('+', A.BCall('MID$', [sv, nv], '$'), A.Str('|'), '$')
        elif fn == 'MID3':
            e = A.Bin('+', A.BCall('MID$', [sv, A.Num('%', 2, '2'), nv],
                                   '$'), A.Str('|'), '$')
        else:
            e = A.BCall('INSTR', [nv, sv, A.Str('l')], '%')
    elif kind == 'sfn1':
        _, fn, s_ = item
        body = [A.Assign(_v('s$'), A.Str(s_))]
        e = A.BCall(fn, [_v('s$')], '$' if fn.endswith('$') else
                    ('#' if fn == 'VAL' else '%'))
        if fn.endswith('$'):
            e = A.Bin('+', e, A.Str('|'), '$')
    elif kind == 'sfn2':
        _, fn, s_, s2 = item
        body = [A.Assign(_v('s$'), A.Str(s_)), A.Assign(_v('t$'), A.Str(s2))]
        e = A.BCall('INSTR', [_v('s$'), _v('t$')], '%')
    else:
        _, op, s_, s2 = item
        body = [A.Assign(_v('s$'), A.Str(s_)), A.Assign(_v('t$'), A.Str(s2))]
        e = A.Bin(op, _v('s$'), _v('t$'), '$' if op == '+' else '%')
    body.append(A.Print([A.Str('r'), ';', e]))
    body.append(A.Print([A.Str('end')]))
    return A.Program(body)


def items(cfg):
    out = runtime_items()
    if cfg.get('tier', 'quick') == 'quick':
        # the binary-operator family is sampled, the small families are
        # complete in both tiers
        import random
        from qv.runner import derive_seed
        rng = random.Random(derive_seed(ID, cfg.get('seed', 1), 0, 'items'))
        big = [x for x in out if x[0] == 'bin']
        rng.shuffle(big)
        out = [x for x in out if x[0] != 'bin'] + big[:1200]
    return out


def check_item(item, cfg):
    from qv.runner import digest
    prog = runtime_program(tuple(item))
    failures, info = judge(prog, {}, render.PLAIN, cfg)
    fl = []
    if failures:
        enc = cases.encode_case(prog, {}, render.PLAIN)
        fl = [{'bucket': 'catalogue:' + b, 'detail': dict(d, item=list(item)),
               'case': enc} for b, d in failures]
    return {'key': digest(info['text']),
            'nontrivial': info['accepted'] and not info['inconclusive'],
            'classes': ['catalogue:%s:%s' % (item[0], item[1]),
                        'catalogue:ref:' + info['ref_outcome']],
            'failures': fl, 'inconclusive': info['inconclusive']}
