"""C01 - Compiled programs do what their QBASIC source says.

Oracle: the independent reference interpreter R (qv/ref.py) over the
generator's own AST; every configuration's event trace and outcome must equal
R's."""
from hypothesis import strategies as st

from qv import gen, render, run as X, cases, oracle, shrink as SH
from qv import ref as RF

ID = 'C01'
LEVEL = 'exploration'
RULE = ('Well-typed terminating programs drawn from the typed generator G '
        '(all statement kinds of the reference subset, expressions over all '
        'operators and built-ins, procedures with by-reference / by-value '
        'arguments, recursion, arrays, records, CONST, DEFtype, STATIC / '
        'SHARED), rendered in a drawn style, with a drawn device script; '
        'compiled at O0/O1/O2 with and without -g; trace (typed PRINT items, '
        'prompts, INPUT, DATA reads, device calls) and outcome (end, or '
        'run-time error class and statement line) compared with the '
        'reference interpreter R; each program with an IF is judged a second '
        'time with its IF conditions negated (the skipped branches run).  '
        'Non-trivial: accepted, R supports it, >= 3 '
        'events and >= 2 of {procedure call, loop with >= 2 iterations, '
        'array or record access, implicit conversion, GOTO/GOSUB, run-time '
        'error outcome}.  Distinct by hash of (text, script).')
ASSUMPTIONS = [
    'R is an independent implementation of the language semantics; its '
    'agreement with the repository\'s own expectations is checked by '
    'tools/calibrate.py',
    'agreed-subset exclusions (DESIGN.md 4.1) are generator switches; '
    'programs R cannot judge are counted as inconclusive',
    'parse tree computed once per text and copied per configuration '
    '(audited in C08)',
]
CONFIGS = X.ALL_CONFIGS


def configure(tier, avoid):
    quick = tier == 'quick'
    p = gen.Params(
        max_stmts=14 if quick else 28, max_depth=2 if quick else 3,
        expr_depth=3 if quick else 4, max_procs=2 if quick else 3,
        edgy=0.05, avoid=avoid)
    return {'examples': 320 if quick else 6000, 'params': p,
            'bounds': {'max_stmts': p.max_stmts, 'max_depth': p.max_depth,
                       'expr_depth': p.expr_depth, 'configs': [
                           X.cfg_name(c) for c in CONFIGS]},
            'tick_budget': 100000, 'avoid': avoid}


def setup_worker(cfg):
    X.set_parse_cache(True)


def strategy(cfg):
    return st.tuples(gen.programs(cfg['params']), gen.styles())


def judge(prog, script, style, cfg, configs=CONFIGS):
    """-> (failures [(bucket, detail)], info)"""
    rendered = render.render(prog, style)
    text = rendered.text
    info = {'accepted': False, 'events': 0, 'features': set(),
            'inconclusive': None, 'text': text}
    failures = []
    it = RF.Interp(prog, script, rendered)
    evs, out = it.run()
    info['features'] = set(it.used_features)
    info['ref_outcome'] = out[0] if out[0] != 'error' else 'error:' + out[1]
    info['events'] = len(evs)
    if out[0] in ('unsupported', 'budget', 'input_exhausted'):
        # outside the reference subset: nothing is judged (compiler
        # totality on such inputs is C06's business)
        info['inconclusive'] = 'inconclusive:ref_' + out[0] + (
            ':' + str(out[1])[:40] if out[0] == 'unsupported' else '')
        return [], info
    sc = X.Script(**script)
    for cfg_ in configs:
        c = X.compile_one(text, *cfg_)
        name = X.cfg_name(cfg_)
        if c.kind == 'timeout':
            info['inconclusive'] = 'inconclusive:compile_timeout'
            continue
        if c.kind == 'rejected':
            failures.append(('rejected:%s' % c.category,
                             {'config': name, 'msg': c.msg, 'loc': c.loc}))
            continue
        if c.kind == 'host_exc':
            failures.append(('compile_exc:%s' % c.bucket(),
                             {'config': name, 'stage': c.stage,
                              'tb': c.tb[-1200:]}))
            continue
        info['accepted'] = True
        rr = X.execute(c.module, sc, tick_budget=cfg['tick_budget'])
        verdict, bucket, detail, _ = oracle.compare(
            prog, script, rendered, c.module, rr, ref_result=(it, evs, out))
        if verdict.startswith('inconclusive'):
            info['inconclusive'] = verdict
            continue
        if verdict == 'mismatch':
            detail = dict(detail or {})
            detail['config'] = name
            failures.append((bucket, detail))
    # one entry per bucket
    seen = {}
    for b, d in failures:
        if b in seen:
            seen[b].setdefault('also', []).append(d.get('config'))
        else:
            seen[b] = d
    return list(seen.items()), info


def check(case, cfg):
    (prog, script, stats), style = case
    failures, info = judge(prog, script, style, cfg)
    flipped_run = False
    if not failures and info['accepted'] and not info['inconclusive']:
        # the same program with its IF conditions negated: the branches the
        # first run skipped are executed and judged too
        from qv.variants import flipped
        fprog = flipped(prog)
        if fprog is not None:
            ffail, finfo = judge(fprog, script, style, cfg)
            flipped_run = True
            info['features'] = set(info['features']) | set(
                finfo['features'])
            if ffail:
                failures = ffail
                prog = fprog
    from qv.runner import digest
    key = digest([info['text'], script])
    f = info['features']
    score = sum([
        'call' in f, 'loop2' in f, bool(f & {'array', 'record'}) or
        stats.get('array_access', 0) + stats.get('field_access', 0) > 0,
        'implicit_conv' in f, bool(f & {'goto', 'gosub'}),
        info['ref_outcome'].startswith('error')])
    nontrivial = info['accepted'] and not info['inconclusive'] and \
        info['events'] >= 3 and score >= 2
    cls = ['ref:' + info['ref_outcome']] + sorted('f:' + x for x in f)
    if flipped_run:
        cls.append('flipped_variant_judged')
    for k in ('byref_arg', 'recursion', 'array_access', 'field_access',
              'func_call', 'sub_call', 'select', 'gosub', 'goto', 'input',
              'read', 'device', 'deftype', 'const', 'static_decl',
              'shared_decl', 'nested_record', 'dynamic_array'):
        if stats.get(k):
            cls.append('g:' + k)
    fl = []
    if failures:
        enc = cases.encode_case(prog, script, style)
        for b, d in failures:
            fl.append({'bucket': b, 'detail': d, 'case': enc})
    return {'key': key, 'nontrivial': nontrivial, 'classes': cls,
            'failures': fl, 'inconclusive': info['inconclusive'],
            'extra_evals': 1 if flipped_run else 0,
            'sample': cases.sample_of(info['text'], script,
                                      ref_outcome=info['ref_outcome'])
            if nontrivial else None}


def judge_text(obj, cfg):
    """Plain regression check of a hand-written witness: a source text with
    the expected printed text and outcome (derived by hand from the language
    definition), bypassing the generator and R."""
    exp = obj['expect']
    failures = []
    sc = X.Script(**(obj.get('script') or {}))
    for cfg_ in CONFIGS:
        if obj.get('only_dbg') and not cfg_[1]:
            continue          # RESUME needs the debug section
        if obj.get('only_nodbg') and cfg_[1]:
            continue
        c = X.compile_one(obj['text'], *cfg_)
        name = X.cfg_name(cfg_)
        if c.kind != 'accepted':
            failures.append(('witness:not_accepted', {'config': name,
                                                      'got': repr(c)}))
            continue
        rr = X.execute(c.module, sc, tick_budget=cfg['tick_budget'])
        printed = ''.join(e[1] for e in rr.events if e[0] == 'print')
        if 'prints' in exp and printed != exp['prints']:
            failures.append(('witness:output', {
                'config': name, 'got': printed, 'want': exp['prints']}))
        want = exp.get('outcome', 'end')
        got = rr.outcome[0] if rr.outcome[0] != 'trap' else rr.outcome[1]
        if got != want:
            failures.append(('witness:outcome', {
                'config': name, 'got': rr.outcome[:4], 'want': want}))
        if 'line' in exp and cfg_[1] and rr.outcome[0] == 'trap' and \
                rr.outcome[3] != exp['line']:
            failures.append(('witness:line', {
                'config': name, 'got': rr.outcome[3], 'want': exp['line']}))
    seen = {}
    for b, d in failures:
        seen.setdefault(b, d)
    return list(seen.items())


def replay(obj, cfg):
    if 'expect' in obj:
        return {'failures': [{'bucket': b, 'detail': d, 'case': obj}
                             for b, d in judge_text(obj, cfg)]}
    prog, script, style, text = cases.decode_case(obj)
    failures, info = judge(prog, script, style, cfg)
    return {'failures': [{'bucket': b, 'detail': d, 'case': obj}
                         for b, d in failures]}


def shrink(failure, cfg):
    prog, script, style, text = cases.decode_case(failure['case'])
    bucket = failure['bucket']

    def still(p):
        fs, _ = judge(p, script, style, cfg)
        return any(b == bucket for b, _ in fs)
    small = SH.shrink_program(prog, still, max_tests=70)
    fs, _ = judge(small, script, style, cfg)
    for b, d in fs:
        if b == bucket:
            return {'bucket': bucket, 'detail': d,
                    'case': cases.encode_case(small, script, style)}
    return failure
