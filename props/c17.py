"""C17 - PRINT lays out items, print zones and line ends.

Layout model over item / separator sequences: number text + one blank,
strings verbatim, ';' nothing, ',' pads to the next multiple of 14 columns
(counted from the start of the statement's output), line break unless the
statement ends in a separator.  The number texts are the machine's own
(STR$ of the same value, printed first); their correctness is C16's
business.  Metamorphic variants of one value sequence - variables, typed
literals, expressions, inside a loop, inside a SUB - must all give the
model's text, in all six configurations."""
import itertools

from hypothesis import strategies as st

from qv import run as X
from qv.runner import digest, derive_seed

ID = 'C17'
LEVEL = 'exploration'
RULE = ('Token sequences over {number, short string, string longer than a '
        'zone, empty string, ";", ","} with the grammar (item? sep)* item?: '
        'all shapes up to 3 tokens (quick) / 4 tokens (thorough) with two '
        'seeded value assignments each, plus drawn sequences of 5-9 tokens; '
        'numbers of every type (INTEGER, LONG, SINGLE, DOUBLE; negative, '
        'zero, exponent form), strings of length 0-40.  Each sequence is '
        'printed as variables, as typed literals, as expressions, inside a '
        'FOR loop and inside a SUB, at all six configurations.  Non-trivial: '
        '>= 2 items and >= 1 comma after column 0.  Distinct by (shape, '
        'values).')
ASSUMPTIONS = ['number texts are taken from STR$ of the same value in the '
               'same run (C16 checks them)']
NUMS = {
    '%': [0, 1, -1, 7, 42, -300, 32767, -32768, 12345],
    '&': [100000, -100000, 2147483647, -2147483648, 65536, 1234567],
    '!': [0.5, -0.125, 2.5, 1234567.0, 1e10, 1.5e-5, -3.25, 100.0,
          1e20, 0.1],
    '#': [0.5, -0.125, 2.5, 123456789012.0, 1e100, 2.5e-10, -3.25,
          0.1, 1e16],
}
CHARS = 'abcXYZ 0123456789.,;:-+*/()[]<>=!?#$%&_'


def shapes(maxlen):
    out = []
    for n in range(0, maxlen + 1):
        for tup in itertools.product('NSLE;,', repeat=n):
            ok = True
            for a, b in zip(tup, tup[1:]):
                if a not in ';,' and b not in ';,':
                    ok = False
                    break
            if ok:
                out.append(''.join(tup))
    return out


def draw_values(shape, rng):
    vals = []
    for ch in shape:
        if ch == 'N':
            t = rng.choice('%%&!#')
            vals.append((t, rng.choice(NUMS[t])))
        elif ch == 'S':
            n = rng.randint(1, 13)
            vals.append(('$', ''.join(rng.choice(CHARS) for _ in range(n))))
        elif ch == 'L':
            n = rng.randint(14, 40)
            vals.append(('$', ''.join(rng.choice(CHARS) for _ in range(n))))
        elif ch == 'E':
            vals.append(('$', ''))
        else:
            vals.append(ch)
    return vals


def lit(t, v):
    if t == '$':
        return '"%s"' % v
    if t == '%':
        return '%d' % v if v >= 0 else '(%d)' % v
    if t == '&':
        s = '%d&' % abs(v) if abs(v) <= 32767 else '%d' % abs(v)
        if v == -2147483648:
            return '(-2147483647 - 1)'
        return s if v >= 0 else '(-%s)' % s
    r = repr(float(abs(v)))
    if 'e' in r:
        m, e = r.split('e')
        r = m + ('E' if t == '!' else 'D') + ('+' if int(e) >= 0 else '-') + \
            str(abs(int(e)))
    else:
        if r.endswith('.0'):
            r = r[:-2]
        r += t
    return r if v >= 0 else '(-%s)' % r


def program_for(vals):
    """-> (text, number of numeric items)"""
    decl = []
    names = []
    k = 0
    for it in vals:
        if it in (';', ','):
            names.append(it)
            continue
        k += 1
        t, v = it
        nm = 'w%d%s' % (k, t)
        names.append(nm)
        decl.append('%s = %s' % (nm, lit(t, v)))
    shared = [n for n in names if n not in (';', ',')]
    lines = []
    if shared:
        lines.append('DIM SHARED ' + ', '.join(shared))
    lines.extend(decl)
    nnum = 0
    for n in shared:
        if n[-1] != '$':
            lines.append('PRINT STR$(%s)' % n)
            nnum += 1
    lines.append('PRINT "#"')

    def stmt(render):
        out = 'PRINT'
        first = True
        for it, nm in zip(vals, names):
            if nm in (';', ','):
                out += nm
            else:
                out += ' ' + render(it, nm)
        return out
    v_var = stmt(lambda it, nm: nm)
    v_lit = stmt(lambda it, nm: lit(*it))
    v_expr = stmt(lambda it, nm: ('(%s + "")' % nm) if nm[-1] == '$'
                  else ('(%s + 0)' % nm if it != ('%', 32767) and
                        it != ('&', 2147483647) else '(%s - 0)' % nm))
    lines.append(v_var)
    lines.append('PRINT "#"')
    lines.append(v_lit)
    lines.append('PRINT "#"')
    lines.append(v_expr)
    lines.append('PRINT "#"')
    lines.append('FOR q9% = 1 TO 1: ' + v_var + ': NEXT')
    lines.append('PRINT "#"')
    lines.append('CALL pz')
    lines.append('PRINT "#"')
    lines.append('END')
    lines.append('SUB pz')
    lines.append(v_var)
    lines.append('END SUB')
    return '\n'.join(lines) + '\n', nnum


def model(vals, numerals):
    buf = ''
    k = 0
    for it in vals:
        if it == ';':
            continue
        if it == ',':
            buf += ' ' * (14 - len(buf) % 14)
            continue
        t, v = it
        if t == '$':
            buf += v
        else:
            buf += numerals[k] + ' '
            k += 1
    if not vals or vals[-1] not in (';', ','):
        buf += '\r\n'
    return buf


def configure(tier, avoid):
    quick = tier == 'quick'
    return {'examples': 150 if quick else 3000, 'tier': tier,
            'shape_len': 3 if quick else 4,
            'bounds': {'exhaustive_shape_length': 3 if quick else 4,
                       'drawn_length': 9},
            'tick_budget': 20000}


def setup_worker(cfg):
    X.set_parse_cache(True)


def items(cfg):
    import random
    rng = random.Random(derive_seed(ID, cfg.get('seed', 1), 0, 'items'))
    out = []
    for sh in shapes(cfg['shape_len']):
        for _ in range(2):
            out.append(draw_values(sh, rng))
    return out


@st.composite
def sequences(draw):
    n = draw(st.integers(5, 9))
    vals = []
    prev_item = False
    for _ in range(n):
        ch = draw(st.sampled_from('NNSLE;;,,,'))
        if ch not in ';,' and prev_item:
            ch = draw(st.sampled_from(';,,'))
        if ch == 'N':
            t = draw(st.sampled_from('%%&!#'))
            vals.append((t, draw(st.sampled_from(NUMS[t]))))
        elif ch in 'SLE':
            ln = {'S': draw(st.integers(1, 13)), 'L': draw(st.integers(14, 40)),
                  'E': 0}[ch]
            vals.append(('$', ''.join(draw(st.sampled_from(CHARS))
                                      for _ in range(ln))))
        else:
            vals.append(ch)
        prev_item = ch not in ';,'
    return vals


def strategy(cfg):
    return sequences()


def judge(vals, cfg):
    text, nnum = program_for(vals)
    failures = []
    for c in X.ALL_CONFIGS:
        m = X.compile_one(text, *c)
        name = X.cfg_name(c)
        if m.kind != 'accepted':
            failures.append(('not_accepted', {'config': name,
                                              'got': repr(m)}))
            continue
        r = X.execute(m.module, X.Script(), tick_budget=cfg['tick_budget'])
        prints = [e[1] for e in r.events if e[0] == 'print']
        if r.outcome[0] != 'end' or len(prints) != nnum + 11:
            failures.append(('driver_failed', {
                'config': name, 'outcome': r.outcome[:2],
                'prints': len(prints)}))
            continue
        numerals = [p[:-2] for p in prints[:nnum]]
        want = model(vals, numerals)
        got = [prints[nnum + 1 + 2 * k] for k in range(5)]
        for variant, g in zip(('variables', 'literals', 'expressions',
                               'in_loop', 'in_sub'), got):
            if g != want:
                failures.append(('layout:' + variant, {
                    'config': name, 'got': g, 'want': want}))
    seen = {}
    for b, d in failures:
        seen.setdefault(b, d)
    return list(seen.items()), text


def result(vals, cfg):
    failures, text = judge(vals, cfg)
    nitems = sum(1 for v in vals if v not in (';', ','))
    comma_after_col0 = any(
        v == ',' and any(x not in (';', ',') and x[1] != ''
                         for x in vals[:k])
        for k, v in enumerate(vals))
    nontrivial = nitems >= 2 and comma_after_col0
    shape = ''.join(v if v in (';', ',') else (
        'N' if v[0] != '$' else 'E' if v[1] == '' else
        'L' if len(v[1]) >= 14 else 'S') for v in vals)
    cls = ['len:%d' % min(len(vals), 9)]
    if any(v not in (';', ',') and v[0] == '$' and len(v[1]) >= 14
           for v in vals):
        cls.append('string_longer_than_zone')
    if vals and vals[0] in (';', ','):
        cls.append('leading_separator')
    if vals and vals[-1] in (';', ','):
        cls.append('trailing_separator')
    key = digest(repr(vals))
    return {'key': key, 'nontrivial': nontrivial, 'classes': cls,
            'failures': [{'bucket': b, 'detail': d,
                          'case': {'vals': [list(v) if isinstance(v, tuple)
                                            else v for v in vals]}}
                         for b, d in failures],
            'sample': {'shape': shape, 'program': text}
            if nontrivial and key[0] == '0' else None}


def check_item(vals, cfg):
    return result(vals, cfg)


def check(vals, cfg):
    return result(vals, cfg)


def replay(obj, cfg):
    vals = [tuple(v) if isinstance(v, list) else v for v in obj['vals']]
    failures, _ = judge(vals, cfg)
    return {'failures': [{'bucket': b, 'detail': d, 'case': obj}
                         for b, d in failures]}
