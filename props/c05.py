"""C05 - Static errors are rejected at compile time with a located diagnostic.

Fault injection into valid programs: a valid generated program P (checked to
be accepted at all eight configurations) receives ONE faulty construct from a
catalogue of static-rule violations at ONE site (module level, procedure
body, nested block body, the THEN branch of a single-line IF).  Oracle: every
configuration rejects P' with SyntaxError/CompileError of the category of the
injected rule, with a position inside the text whose line is the line of the
injected construct (for an unclosed block: that line or the line of the
terminator where the mismatch becomes visible)."""
import copy

from hypothesis import strategies as st

from qv import gen, render, run as X, cases
from qv import ast as A
from qv.runner import digest

ID = 'C05'
LEVEL = 'exploration'
RULE = ('Valid programs from the typed generator G (plus three helper '
        'declarations: a record type, a SUB and a FUNCTION) x a catalogue of '
        '95 rule violations (type mismatch in assignment / operator / '
        'condition / argument / CASE / FOR bound, undefined and duplicate '
        'label, duplicate definition, argument count, array rank, undefined '
        'type / field / procedure, misplaced EXIT / ELSE / ELSEIF / CASE / '
        'block terminator, unclosed block, illegal numeric literal, '
        'non-constant CONST) x every applicable site (before/after every '
        'statement of every body, and the THEN branch of single-line IFs) x '
        'O0-O3 x {-g, no -g}; quick tier: 4 drawn (site, fault) pairs per '
        'program, thorough tier: additionally all faults at one site and '
        'one fault at all sites.  Both tiers also sweep one fixed host '
        'program completely: every site x every applicable fault (quick: '
        'at O0 and O2-g).  Non-trivial: the site is inside a '
        'procedure, a nested block or a single-line IF, or after a '
        'declaration.  Distinct by faulty text.')
ASSUMPTIONS = [
    'the category of a rule is the ErrorCode whose name states that rule '
    '(qbee/exceptions.py); block-structure violations found by the parser '
    'and illegal literals are SyntaxError as in the repository\'s own '
    'test cases',
    'a fault is only injected where its rule is violated whatever the '
    'surrounding program does (e.g. EXIT FOR only outside any FOR; an '
    'unclosed block opener only outside blocks of its own kind, whose '
    'terminator it would otherwise take over)',
]
CONFIGS = X.ALL_CONFIGS

SYN = 'SyntaxError'
HELP_TOP = ['TYPE zzqrec', 'zzfa AS INTEGER', 'zzfb AS STRING',
            'END TYPE']
HELP_END = ['SUB zzqs (zzpa%, zzpb$)', 'END SUB',
            'FUNCTION zzqf% (zzpc%)', 'zzqf% = zzpc%', 'END FUNCTION']


def F(name, lines, expect, at=0, when=None, ifline=False, unclosed=False):
    if isinstance(expect, str):
        expect = (expect,)
    return {'name': name, 'lines': lines, 'expect': tuple(expect), 'at': at,
            'when': when,
            'ifline': ifline and (callable(lines) or len(lines) == 1),
            'unclosed': unclosed}


def not_in(kind):
    return lambda c: kind not in c['enclosing']


def parent_not(*kinds):
    return lambda c: c['parent'] not in kinds


TM = 'TYPE_MISMATCH'


def scalar_params(ctx):
    pr = ctx.get('proc')
    return [q for q in (pr.params if pr is not None else [])
            if not q.is_array and q.t in ('%', '&', '!', '#', '$')]


def retval_lines(ctx):
    pr = ctx['proc']
    return ['%s = 5' % pr.name] if pr.rt == '$' else ['%s = "s"' % pr.name]


def param_lines(ctx):
    q = scalar_params(ctx)[0]
    return ['%s = 5' % q.name] if q.t == '$' else ['%s = "s"' % q.name]


CATALOGUE = [
    F('function_result_type_mismatch', retval_lines, TM,
      when=lambda c: c['routine'] == 'function', ifline=True),
    F('parameter_type_mismatch', param_lines, TM,
      when=lambda c: bool(scalar_params(c)), ifline=True),
    # -- type mismatch: assignment, operator, condition, argument
    F('assign_num_to_string', ['zzqa$ = 5'], TM, ifline=True),
    F('assign_string_to_int', ['zzqb% = "a"'], TM, ifline=True),
    F('assign_string_to_double', ['zzqb# = "a" + "b"'], TM, ifline=True),
    F('assign_field_string', ['DIM zzqr1 AS zzqrec', 'zzqr1.zzfa = "s"'], TM,
      at=1),
    F('assign_record_to_scalar', ['DIM zzqr2 AS zzqrec', 'zzqb2% = zzqr2'],
      TM, at=1),
    F('operator_plus_mixed', ['zzqc% = 1 + "a"'], TM, ifline=True),
    F('operator_minus_strings', ['zzqd$ = "a" - "b"'], TM, ifline=True),
    F('operator_and_string', ['zzqc2% = 1 AND "a"'], TM, ifline=True),
    F('operator_compare_mixed', ['zzqc3% = "a" < 1'], TM, ifline=True),
    F('unary_minus_string', ['zzqd2$ = -"a"'], TM, ifline=True),
    F('print_mixed_operands', ['PRINT 1 + "a"'], TM, ifline=True),
    F('condition_ifline_string', ['IF "a" THEN zzqe% = 1'], TM),
    F('condition_if_block_string', ['IF "a" THEN', 'END IF'], TM),
    F('condition_elseif_string', ['IF 1 THEN', 'ELSEIF "a" THEN', 'END IF'],
      TM, at=1),
    F('condition_while_string', ['WHILE "a"', 'WEND'], TM),
    F('condition_do_while_string', ['DO WHILE "a"', 'LOOP'], TM),
    F('condition_loop_until_string', ['DO', 'LOOP UNTIL "s"'], TM, at=1),
    F('for_bound_string', ['FOR zzqf1% = "a" TO 2', 'NEXT'], TM),
    F('for_step_string', ['FOR zzqf2% = 1 TO 2 STEP "s"', 'NEXT'], TM),
    F('for_string_counter', ['FOR zzqf3$ = 1 TO 2', 'NEXT'], TM),
    F('case_value_string', ['SELECT CASE zzqi%', 'CASE "a"', 'END SELECT'],
      TM, at=1),
    F('case_range_string', ['SELECT CASE zzqi2%', 'CASE 1 TO "b"',
                            'END SELECT'], TM, at=1),
    F('sub_argument_type', ['CALL zzqs("x", "y")'], TM, ifline=True),
    F('sub_argument_type_2', ['CALL zzqs(1, 2)'], TM, ifline=True),
    F('function_argument_type', ['zzqg% = zzqf%("s")'], TM, ifline=True),
    F('builtin_argument_type', ['zzqh% = LEN(5)'], TM, ifline=True),
    F('builtin_argument_type_2', ['zzqh$ = CHR$("a")'], TM, ifline=True),
    F('builtin_argument_type_3', ['zzqh2$ = MID$("abc", "b")'], TM,
      ifline=True),
    F('array_index_string', ['DIM zzqn0(3) AS INTEGER', 'zzqn0("a") = 1'], TM,
      at=1),
    F('dim_bound_string', ['DIM zzqn1("a") AS INTEGER'], TM),
    F('locate_string', ['LOCATE "a", 1'], TM, ifline=True),
    # -- the same faults on an operand in the middle of an operator chain
    F('array_rank_in_chain', ['DIM zzqn4(3) AS INTEGER',
                              'zzqo4% = 1 + zzqn4(1, 2) + 2'],
      'WRONG_NUMBER_OF_DIMENSIONS', at=1),
    F('undefined_field_in_chain', ['DIM zzqr4 AS zzqrec',
                                   'zzqo5% = 1 + zzqr4.nofield + 2'],
      'ELEMENT_NOT_DEFINED', at=1),
    F('function_argument_type_in_chain', ['zzqg4% = 1 + zzqf%("s") + 2'],
      TM, ifline=True),
    F('array_index_string_in_chain', ['DIM zzqn5(3) AS INTEGER',
                                      'zzqo6% = 2 * zzqn5("a") * 3'], TM,
      at=1),
    F('operator_mixed_in_chain', ['zzqc5% = 1 + 2 + "a"'], TM, ifline=True),
    F('operator_mixed_in_chain_2', ['zzqc6$ = "a" + "b" + 3 + "c"'], TM,
      ifline=True),
    F('record_in_comparison_chain', ['DIM zzqr6 AS zzqrec',
                                     'zzqo7% = zzqr6 < 5 < 7'], TM, at=1),
    F('record_in_comparison', ['DIM zzqr7 AS zzqrec', 'zzqo8% = zzqr7 = 5'],
      TM, at=1),
    F('array_in_comparison', ['DIM zzqn6(2) AS LONG, zzqn7(2) AS LONG',
                              'zzqo9% = zzqn6 = zzqn7'], TM, at=1),
    # -- argument count
    F('sub_too_few_arguments', ['CALL zzqs(1)'], 'ARGUMENT_COUNT_MISMATCH',
      ifline=True),
    F('sub_too_many_arguments', ['CALL zzqs(1, "a", 3)'],
      'ARGUMENT_COUNT_MISMATCH', ifline=True),
    F('function_too_many_arguments', ['zzqg2% = zzqf%(1, 2)'],
      'ARGUMENT_COUNT_MISMATCH', ifline=True),
    # -- labels
    F('goto_undefined_label', ['GOTO zzqnolab'], 'LABEL_NOT_DEFINED',
      ifline=True),
    F('gosub_undefined_label', ['GOSUB zzqnolab'], 'LABEL_NOT_DEFINED',
      ifline=True),
    F('goto_undefined_line_number', ['GOTO 31999'], 'LABEL_NOT_DEFINED',
      ifline=True),
    F('restore_undefined_label', ['RESTORE zzqnolab'], 'LABEL_NOT_DEFINED',
      ifline=True),
    F('on_error_undefined_label', ['ON ERROR GOTO zzqnolab'],
      'LABEL_NOT_DEFINED', when=lambda c: c['routine'] == 'main',
      ifline=True),
    F('duplicate_label', ['zzqdup: zzqj% = 1', 'zzqdup: zzqj% = 2'],
      'DUPLICATE_LABEL', at=1),
    F('duplicate_line_number', ['31998 zzqj2% = 1', '31998 zzqj2% = 2'],
      'DUPLICATE_LABEL', at=1),
    # -- duplicate definitions
    F('duplicate_dim', ['DIM zzqk AS INTEGER', 'DIM zzqk AS INTEGER'],
      'DUPLICATE_DEFINITION', at=1),
    F('duplicate_dim_array', ['DIM zzqm(3) AS LONG', 'DIM zzqm(4) AS LONG'],
      'DUPLICATE_DEFINITION', at=1),
    F('duplicate_const', ['CONST zzqc1 = 1', 'CONST zzqc1 = 2'],
      'DUPLICATE_DEFINITION', at=1),
    F('const_then_dim', ['CONST zzqc3 = 1', 'DIM zzqc3 AS INTEGER'],
      'DUPLICATE_DEFINITION', at=1),
    F('assign_to_const', ['CONST zzqc2 = 1', 'zzqc2 = 5'],
      'DUPLICATE_DEFINITION', at=1),
    # -- arrays, types, fields, procedures
    F('array_rank_write', ['DIM zzqn(3) AS INTEGER', 'zzqn(1, 2) = 5'],
      'WRONG_NUMBER_OF_DIMENSIONS', at=1),
    F('array_rank_read', ['DIM zzqn2(3, 3) AS INTEGER', 'zzqo% = zzqn2(1)'],
      'WRONG_NUMBER_OF_DIMENSIONS', at=1),
    F('array_rank_dynamic_array', ['zzqdn% = 3',
                                   'DIM zzqdy(zzqdn%) AS INTEGER',
                                   'zzqdy(1, 2) = 5'],
      'WRONG_NUMBER_OF_DIMENSIONS', at=2),
    F('array_rank_dynamic_array_read', ['zzqdm% = 3',
                                        'DIM zzqdz(1 TO zzqdm%, 2) AS LONG',
                                        'zzqdo& = zzqdz(1)'],
      'WRONG_NUMBER_OF_DIMENSIONS', at=2),
    F('undefined_type', ['DIM zzqp AS zzqnotype'], 'TYPE_NOT_DEFINED'),
    F('undefined_type_array', ['DIM zzqp2(2) AS zzqnotype'],
      'TYPE_NOT_DEFINED'),
    F('undefined_field_write', ['DIM zzqr AS zzqrec', 'zzqr.nofield = 1'],
      'ELEMENT_NOT_DEFINED', at=1),
    F('undefined_field_read', ['DIM zzqr3 AS zzqrec',
                               'zzqo2% = zzqr3.nofield'],
      'ELEMENT_NOT_DEFINED', at=1),
    F('undefined_procedure', ['CALL zzqnosub(1)'], 'SUBPROGRAM_NOT_FOUND',
      ifline=True),
    F('undefined_procedure_no_args', ['CALL zzqnosub2'],
      'SUBPROGRAM_NOT_FOUND', ifline=True),
    # -- misplaced EXIT / ELSE / CASE
    F('exit_for_outside_for', ['EXIT FOR'], 'INVALID_EXIT',
      when=not_in('for'), ifline=True),
    F('exit_do_outside_do', ['EXIT DO'], 'INVALID_EXIT', when=not_in('do'),
      ifline=True),
    F('exit_sub_outside_sub', ['EXIT SUB'], 'INVALID_EXIT',
      when=lambda c: c['routine'] != 'sub', ifline=True),
    F('exit_function_outside_function', ['EXIT FUNCTION'], 'INVALID_EXIT',
      when=lambda c: c['routine'] != 'function', ifline=True),
    F('else_without_if', ['ELSE'], 'ELSE_WITHOUT_IF',
      when=parent_not('if')),
    F('elseif_without_if', ['ELSEIF 1 THEN'], 'ELSE_WITHOUT_IF',
      when=parent_not('if')),
    F('case_without_select', ['CASE 1'], 'CASE_WITHOUT_SELECT',
      when=parent_not('select')),
    F('case_else_without_select', ['CASE ELSE'], 'CASE_WITHOUT_SELECT',
      when=parent_not('select')),
    # -- misplaced block terminators
    F('stray_end_if', ['END IF'], (SYN, 'BLOCK_MISMATCH'),
      when=parent_not('if')),
    F('stray_next', ['NEXT'], (SYN, 'BLOCK_MISMATCH'),
      when=parent_not('for')),
    F('stray_wend', ['WEND'], (SYN, 'BLOCK_MISMATCH'),
      when=parent_not('while')),
    F('stray_loop', ['LOOP'], (SYN, 'BLOCK_MISMATCH'),
      when=parent_not('do')),
    F('stray_end_select', ['END SELECT'], (SYN, 'BLOCK_MISMATCH'),
      when=parent_not('select')),
    F('stray_end_sub', ['END SUB'], (SYN, 'BLOCK_MISMATCH'),
      when=parent_not('sub')),
    F('stray_end_function', ['END FUNCTION'], (SYN, 'BLOCK_MISMATCH'),
      when=parent_not('function')),
    # -- unclosed blocks
    F('unclosed_for', ['FOR zzqu% = 1 TO 2'], (SYN, 'BLOCK_MISMATCH'),
      when=not_in('for'), unclosed=True),
    F('unclosed_if', ['IF 1 THEN'], (SYN, 'BLOCK_MISMATCH'), when=not_in('if'), unclosed=True),
    F('unclosed_do', ['DO'], (SYN, 'BLOCK_MISMATCH'), when=not_in('do'), unclosed=True),
    F('unclosed_while', ['WHILE 1'], (SYN, 'BLOCK_MISMATCH'), when=not_in('while'), unclosed=True),
    F('unclosed_select', ['SELECT CASE 1'], (SYN, 'BLOCK_MISMATCH'),
      when=not_in('select'), unclosed=True),
    # -- illegal numeric literals
    F('literal_integer_suffix_range', ['zzqw% = 32768%'], SYN, ifline=True),
    F('literal_long_suffix_range', ['zzqw& = 2147483648&'], SYN,
      ifline=True),
    F('literal_fraction_integer_suffix', ['zzqw2% = 2.1%'], SYN,
      ifline=True),
    F('literal_hex_too_long', ['zzqw3& = &H1FFFFFFFF'], SYN, ifline=True),
    F('literal_double_out_of_range', ['zzqw4# = 1D+400'], SYN, ifline=True),
    F('literal_single_suffix_range', ['zzqw5! = 1E+39!'], SYN, ifline=True),
    # -- non-constant CONST
    F('const_of_variable', ['CONST zzqx = zzqy% + 1'], 'INVALID_CONSTANT'),
    F('const_of_function', ['CONST zzqx3 = zzqf%(1)'], 'INVALID_CONSTANT'),
]
BY_NAME = {f['name']: f for f in CATALOGUE}


def configure(tier, avoid):
    quick = tier == 'quick'
    p = gen.Params(max_stmts=12 if quick else 16, max_depth=2, expr_depth=2,
                   max_procs=2, min_procs=1, edgy=0.0, error_rate=0.0,
                   avoid=avoid)
    return {'examples': 110 if quick else 150, 'params': p, 'tier': tier,
            'bounds': {'pairs_per_program': 4}}


def setup_worker(cfg):
    X.set_parse_cache(True)


@st.composite
def injections(draw, params):
    prog, script, stats = draw(gen.programs(params))
    style = draw(gen.styles())
    picks = [(draw(st.integers(0, 10 ** 6)), draw(st.integers(0, 10 ** 6)))
             for _ in range(4)]
    return prog, style, picks, stats


def strategy(cfg):
    return injections(cfg['params'])


# ------------------------------------------------------------------ sites
KIND = {A.If: 'if', A.For: 'for', A.While: 'while', A.Do: 'do',
        A.Select: 'select'}


def sites_of(prog):
    """All injection sites: (path, context).  path = list of steps to the
    body (child indices), then the insertion index; for single-line IFs the
    path ends in the marker 'then'."""
    out = []

    cur_proc = [None]

    def ctx(routine, enclosing, parent, after_decl):
        return {'routine': routine, 'enclosing': tuple(enclosing),
                'parent': parent, 'after_decl': after_decl,
                'proc': cur_proc[0]}

    def walk(body, path, routine, enclosing, parent, module_limit=None):
        n = len(body) if module_limit is None else module_limit
        after_decl = False
        for i in range(n + 1):
            out.append((path + [i], ctx(routine, enclosing, parent,
                                        after_decl)))
            if i == n:
                break
            s = body[i]
            if isinstance(s, (A.Dim, A.Const, A.TypeDef, A.DefType)):
                after_decl = True
            if isinstance(s, A.Proc):
                walk(s.body, path + [i, 0], s.kind, [], s.kind)
            elif isinstance(s, A.IfLine):
                out.append((path + [i, 'then'],
                            ctx(routine, enclosing, 'ifline', after_decl)))
            elif type(s) in KIND:
                k = KIND[type(s)]
                for j, sub in enumerate(A.child_bodies(s)):
                    walk(sub, path + [i, j], routine, enclosing + [k], k)
    first_proc = next((i for i, s in enumerate(prog.body)
                       if isinstance(s, A.Proc)),
                      len(prog.body) - len(HELP_END))
    walk(prog.body, [], 'main', [], 'module', module_limit=first_proc)
    # the procedures themselves
    for i, s in enumerate(prog.body):
        if isinstance(s, A.Proc):
            cur_proc[0] = s
            walk(s.body, [i, 0], s.kind, [], s.kind)
    cur_proc[0] = None
    return out


def body_at(prog, path):
    body = prog.body
    k = 0
    while k < len(path) - 1:
        s = body[path[k]]
        nxt = path[k + 1]
        if nxt == 'then':
            return s, 'then'
        body = A.child_bodies(s)[nxt]
        k += 2
    return body, path[-1]


def applicable(fault, ctx):
    if ctx['parent'] == 'ifline' and not fault['ifline']:
        return False
    if fault['when'] is not None and not fault['when'](ctx):
        return False
    return True


def inject(prog, path, fault, ctx=None):
    """-> (new program, list of injected Raw statements, enclosing stmt)."""
    p2 = copy.deepcopy(prog)
    lines = fault['lines'](ctx) if callable(fault['lines']) else \
        fault['lines']
    raws = [A.Raw(t, alone=True) for t in lines]
    body, idx = body_at(p2, path)
    enclosing = None
    if idx == 'then':
        body.then.extend(raws)
        enclosing = body
    else:
        body[idx:idx] = raws
        # the statement whose body this is
        if len(path) >= 3:
            b = p2.body
            k = 0
            s = None
            while k < len(path) - 1:
                s = b[path[k]]
                b = A.child_bodies(s)[path[k + 1]]
                k += 2
            enclosing = s
    return p2, raws, enclosing


def with_helpers(prog):
    p2 = A.Program([A.Raw(t) for t in HELP_TOP] + list(prog.body) +
                   [A.Raw(t) for t in HELP_END])
    return p2


def line_of(text, loc):
    return text.count('\n', 0, loc) + 1


def outcome(text, configs=CONFIGS):
    """Per configuration: ('accepted',) | ('rejected', category, loc) |
    ('host', bucket)."""
    out = []
    for O, g in configs:
        r = X.compile_one(text, O, g)
        if r.kind == 'accepted':
            out.append(('accepted',))
        elif r.kind == 'rejected':
            e = r.exc
            cat = SYN if type(e).__name__ == 'SyntaxError' else \
                getattr(getattr(e, 'code', None), 'name', type(e).__name__)
            out.append(('rejected', cat, getattr(e, 'loc_start', None)))
        elif r.kind == 'timeout':
            out.append(('timeout',))
        else:
            out.append(('host', r.bucket()))
    return out


def judge_fault(base, style, path, ctx, fault, configs=CONFIGS):
    """-> (failures, info) for one injection."""
    p2, raws, enclosing = inject(base, path, fault, ctx)
    r = render.render(p2, style)
    text = r.text
    lines = [r.pos[id(x)]['line'] for x in raws] if ctx['parent'] != \
        'ifline' else [r.pos[id(enclosing)]['line']] * len(raws)
    want_lines = {lines[fault['at']]}
    if fault['unclosed'] and enclosing is not None:
        end = r.pos.get(id(enclosing), {}).get('end_line')
        if end:
            want_lines.add(end)
    failures = []
    outs = outcome(text, configs)
    for (O, g), o in zip(configs, outs):
        cfgname = X.cfg_name((O, g))
        if o[0] == 'timeout':
            continue
        if o[0] == 'accepted':
            failures.append(('accepted:' + fault['name'], {'config': cfgname}))
        elif o[0] == 'host':
            failures.append(('host_exception:%s:%s' % (fault['name'], o[1]),
                             {'config': cfgname}))
        else:
            _, cat, loc = o
            if cat not in fault['expect']:
                failures.append(('category:%s:%s' % (fault['name'], cat),
                                 {'config': cfgname,
                                  'expected': fault['expect']}))
            elif loc is None or not (0 <= loc <= len(text)):
                failures.append(('no_position:%s' % fault['name'],
                                 {'config': cfgname, 'loc': loc}))
            elif line_of(text, loc) not in want_lines:
                failures.append(('line:%s' % fault['name'], {
                    'config': cfgname, 'reported_line': line_of(text, loc),
                    'expected_lines': sorted(want_lines)}))
    if len({o[:2] for o in outs if o[0] != 'timeout'}) > 1:
        failures.append(('configurations_disagree:' + fault['name'],
                         {'outcomes': [list(map(str, o)) for o in outs]}))
    seen = {}
    for b, d in failures:
        seen.setdefault(b, dict(d, site=ctx['parent'],
                                routine=ctx['routine']))
    return list(seen.items()), text


def nontrivial_ctx(ctx):
    return ctx['routine'] != 'main' or ctx['parent'] not in ('module',) or \
        ctx['after_decl']


def judge(prog, style, picks, cfg, only=None):
    base = with_helpers(prog)
    info = {'pairs': 0, 'nontrivial': 0, 'classes': set(), 'texts': []}
    rb = render.render(base, style)
    outs = outcome(rb.text)
    info['base_text'] = rb.text
    bad = [o for o in outs if o[0] not in ('accepted', 'timeout')]
    if bad:
        if any(o[0] == 'timeout' for o in outs):
            info['inconclusive'] = 'timeout'
            return [], info
        return [('valid_program_rejected', {'outcomes': [
            list(map(str, o)) for o in outs][:4]})], info
    sites = sites_of(base)
    # the helper declarations shift module-level indices: sites_of ran on
    # `base`, so paths are consistent with it
    todo = []
    if only is not None:
        todo = only
    else:
        for a, b in picks:
            path, ctx = sites[a % len(sites)]
            # never inside the helper TYPE block / before it ends
            fs = [f for f in CATALOGUE if applicable(f, ctx)]
            if not fs:
                continue
            todo.append((path, ctx, fs[b % len(fs)]))
        if cfg['tier'] == 'thorough' and picks:
            a, b = picks[0]
            path, ctx = sites[a % len(sites)]
            for f in CATALOGUE:
                if applicable(f, ctx):
                    todo.append((path, ctx, f))
            f = CATALOGUE[b % len(CATALOGUE)]
            for path, ctx in sites:
                if applicable(f, ctx):
                    todo.append((path, ctx, f))
    failures = []
    seen_pairs = set()
    for path, ctx, f in todo:
        if path[0] < len(HELP_TOP) and len(path) == 1 and path[0] > 0:
            continue        # inside the helper TYPE block
        k = (tuple(path), f['name'])
        if k in seen_pairs:
            continue
        seen_pairs.add(k)
        fs, text = judge_fault(base, style, path, ctx, f)
        info['pairs'] += 1
        info['classes'].add('rule:' + f['name'])
        info['classes'].add('site:' + ctx['parent'])
        info['classes'].add('routine:' + ctx['routine'])
        if nontrivial_ctx(ctx):
            info['nontrivial'] += 1
        if len(info['texts']) < 2:
            info['texts'].append({'fault': f['name'], 'text': text})
        for b, d in fs:
            failures.append((b, dict(d, path=list(path), fault=f['name'])))
    seen = {}
    for b, d in failures:
        seen.setdefault(b, d)
    return list(seen.items()), info


def check(case, cfg):
    prog, style, picks, stats = case
    failures, info = judge(prog, style, picks, cfg)
    key = digest([info['base_text'], picks])
    fl = []
    if failures:
        enc = cases.encode_case(prog, {}, style, {'picks': picks})
        fl = [{'bucket': b, 'detail': d, 'case': enc} for b, d in failures]
    return {'key': key, 'nontrivial': info['nontrivial'] > 0,
            'classes': sorted(info['classes']),
            'failures': fl, 'inconclusive': info.get('inconclusive'),
            'extra_evals': max(0, info['pairs'] - 1),
            'sample': {'injections': info['texts']}
            if info['nontrivial'] and key[0] in '0' else None}


def replay(obj, cfg):
    prog, script, style, text = cases.decode_case(obj)
    only = None
    if obj.get('path') is not None:
        base = with_helpers(prog)
        sites = {tuple(p): c for p, c in sites_of(base)}
        path = [x if x == 'then' else int(x) for x in obj['path']]
        ctx = sites.get(tuple(path))
        if ctx is not None:
            only = [(path, ctx, BY_NAME[obj['fault']])]
    picks = [tuple(p) for p in obj.get('picks', [])]
    failures, info = judge(prog, style, picks, cfg, only=only)
    return {'failures': [{'bucket': b, 'detail': d, 'case': obj}
                         for b, d in failures]}


def shrink(failure, cfg):
    # keep the program, pin the (site, fault) pair that failed
    obj = dict(failure['case'])
    d = failure['detail']
    if d.get('path') is not None and d.get('fault'):
        obj['path'] = d['path']
        obj['fault'] = d['fault']
    return {'bucket': failure['bucket'], 'detail': d, 'case': obj}


# ---------------------------------------------------------------------------
# Complete sweep on one fixed host program: every site x every applicable
# fault (both tiers; the quick tier compiles at O0 and O2-g only).
def N_(v):
    return A.Num('%', v, str(v))


def V_(name):
    return A.LV(name, [], [], name[-1])


def host_program():
    pr = lambda *items: A.Print(list(items))
    return A.Program([
        A.Dim('dim', [A.Decl('h1', '%', None, True)]),
        A.Assign(V_('h2%'), N_(1)),
        A.For(V_('hi%'), N_(1), N_(2), None, [pr(V_('hi%'))]),
        A.If([(A.Bin('>', V_('h2%'), N_(0), '%'), [pr(N_(1))])],
             [pr(N_(2))]),
        A.IfLine(V_('h2%'), [pr(N_(3))], None),
        A.Select(V_('h2%'), [([('v', N_(1))], [
            pr(N_(4)),
            A.If([(A.Bin('>', V_('h2%'), N_(0), '%'), [pr(N_(6))])], None),
            A.For(V_('hk%'), N_(1), N_(1), None, [
                A.IfLine(V_('h2%'), [pr(N_(7))], None)]),
            A.Do('loop_until', N_(1), [
                A.While(A.Bin('<', V_('h3%'), N_(1), '%'),
                        [A.Assign(V_('h3%'), N_(1))])]),
        ])], [pr(N_(8))]),
        A.Do('loop_until', A.Bin('>', V_('h2%'), N_(2), '%'),
             [A.Assign(V_('h2%'), A.Bin('+', V_('h2%'), N_(1), '%'))]),
        A.While(A.Bin('<', V_('h2%'), N_(5), '%'),
                [A.Assign(V_('h2%'), A.Bin('+', V_('h2%'), N_(1), '%'))]),
        A.CallSub('hs', [N_(1)]),
        pr(A.FCall('hf%', [N_(2)], '%')),
        A.Proc('sub', 'hs', [A.Param('ha%', '%')], False,
               [pr(V_('ha%')),
                A.For(V_('hj%'), N_(1), N_(2), None, [pr(V_('hj%'))])]),
        A.Proc('function', 'hf%', [A.Param('hb%', '%')], False,
               [A.If([(A.Bin('>', V_('hb%'), N_(0), '%'), [pr(N_(5))])],
                     None),
                A.RetAssign('hf%', V_('hb%'), '%')], '%'),
    ])


def items(cfg):
    base = with_helpers(host_program())
    out = []
    for k, (path, ctx) in enumerate(sites_of(base)):
        if path[0] < len(HELP_TOP) and len(path) == 1 and path[0] > 0:
            continue
        for f in CATALOGUE:
            if applicable(f, ctx):
                out.append((k, f['name']))
    return out


QUICK_CONFIGS = ((0, False), (2, True))


def check_item(item, cfg):
    k, fname = item
    base = with_helpers(host_program())
    path, ctx = sites_of(base)[k]
    f = BY_NAME[fname]
    configs = QUICK_CONFIGS if cfg['tier'] == 'quick' else CONFIGS
    fs, text = judge_fault(base, render.PLAIN, path, ctx, f, configs)
    seen = {}
    for b, d in fs:
        seen.setdefault('sweep:' + b, dict(d, path=list(path), fault=fname))
    enc = None
    if seen:
        enc = cases.encode_case(host_program(), {}, render.PLAIN,
                                {'picks': [], 'path': list(path),
                                 'fault': fname})
    return {'key': digest([text, 'sweep']), 'nontrivial': nontrivial_ctx(ctx),
            'classes': ['sweep', 'rule:' + fname, 'site:' + ctx['parent'],
                        'routine:' + ctx['routine']],
            'failures': [{'bucket': b, 'detail': d, 'case': enc}
                         for b, d in seen.items()]}
