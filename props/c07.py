"""C07 - The virtual machine is total: every run ends in a halt or a trap.

(1) totality: no exception escapes tick(); the run ends halted by the
program, at the end of the code, or in a trap - with adversarial device
inputs and the statements outside the reference subset;
(2) the reported category matches the cause - a directed catalogue of
programs per cause with the trap code each must end in;
(3) interrupt: with no handler armed, an interrupt request delivered at an
instruction boundary stops the run with KEYBOARD_INTERRUPT before any further
instruction executes (state unchanged) - for every boundary of the free run
(exhaustive for short runs, spread + seeded sample otherwise)."""
import signal

from hypothesis import strategies as st

from qv import gen, render, run as X, cases, shrink as SH, monitor as M
from qv.runner import digest, derive_seed

ID = 'C07'
LEVEL = 'fault_enumeration'
RULE = ('Programs from the typed generator G including device statements '
        '(SOUND, PLAY, POKE, DEF SEG, LOCATE, COLOR, SCREEN, WIDTH, VIEW '
        'PRINT, RANDOMIZE) with adversarial scripts (RND / TIMER extremes, '
        'long and empty INKEY$, garbage INPUT lines), compiled at O0 and '
        'O2-g; plus a directed catalogue of one program per error cause '
        '(division by zero in / \\ MOD, overflow per operator / conversion / '
        'assignment / type, subscript below / above per dimension, illegal '
        'argument per built-in, READ past the end / of text into a number) '
        'with the trap code it must end in; for each accepted program '
        'without ON ERROR the interrupt is injected at instruction '
        'boundaries k of the free run of T ticks: every k for T <= 300, '
        'else 48 evenly spread + 48 seeded.  Non-trivial: the program '
        'performs >= 1 device operation and runs >= 20 ticks; for the '
        'interrupt clause 0 < k < T-1.  Distinct by (text, script, k).')
ASSUMPTIONS = [
    'the interrupt flag is only read at the top of tick(), so delivery at '
    'instruction boundaries is the faithful model; signal timing inside an '
    'instruction is not explored',
]
CONFIGS = ((0, False), (2, True))

CAUSES = [
    # (source, expected trap code)
    ('x% = 0\nPRINT 1 / x%\n', 'DIVISION_BY_ZERO'),
    ('x% = 0\nPRINT 1 \\ x%\n', 'DIVISION_BY_ZERO'),
    ('x% = 0\nPRINT 7 MOD x%\n', 'DIVISION_BY_ZERO'),
    ('x# = 0\nPRINT 2.5# / x#\n', 'DIVISION_BY_ZERO'),
    ('x! = 0\nPRINT 0! ^ (x! - 1)\n', 'DIVISION_BY_ZERO'),
    ('x% = 32767\nx% = x% + 1\n', 'INVALID_CELL_VALUE'),
    ('x% = -32767\nx% = x% - 2\n', 'INVALID_CELL_VALUE'),
    ('x% = 300\nPRINT x% * x%\n', 'INVALID_CELL_VALUE'),
    ('x& = 2147483647\nx& = x& + 1\n', 'INVALID_CELL_VALUE'),
    ('x& = 65536\nPRINT x& * x&\n', 'INVALID_CELL_VALUE'),
    ('x! = 3E+38\nx! = x! * 10\n', 'INVALID_CELL_VALUE'),
    ('x# = 1D+308\nx# = x# * 10\n', 'INVALID_CELL_VALUE'),
    ('x! = 1E+20\nPRINT x! ^ 3\n', 'INVALID_CELL_VALUE'),
    ('x# = 10\nPRINT x# ^ 400\n', 'INVALID_CELL_VALUE'),
    ('x% = -32768\nPRINT -x%\n', 'INVALID_CELL_VALUE'),
    ('x% = -32768\nPRINT ABS(x%)\n', 'INVALID_CELL_VALUE'),
    ('x& = 40000\ny% = x&\n', 'INVALID_CELL_VALUE'),
    ('x! = 40000.5\ny% = x!\n', 'INVALID_CELL_VALUE'),
    ('x# = 3000000000#\ny& = x#\n', 'INVALID_CELL_VALUE'),
    ('x# = 1D+300\ny! = x#\n', 'INVALID_CELL_VALUE'),
    ('x! = 40000\nPRINT CINT(x!)\n', 'INVALID_CELL_VALUE'),
    ('x# = 3000000000#\nPRINT CLNG(x#)\n', 'INVALID_CELL_VALUE'),
    ('x# = 3000000000#\nPRINT INT(x#)\n', 'INVALID_CELL_VALUE'),
    ('x# = 3000000000#\nPRINT x# AND 1\n', 'INVALID_CELL_VALUE'),
    ('x# = 3000000000#\nPRINT 5 MOD x#\n', 'INVALID_CELL_VALUE'),
    ('x& = 70000\nPRINT CHR$(x&)\n', 'INVALID_CELL_VALUE'),
    ('FOR i% = 32766 TO 32767\nNEXT\n', 'INVALID_CELL_VALUE'),
    ('x% = 40000 - 1\n', 'INVALID_CELL_VALUE'),
    ('DIM a(1 TO 3)\ni% = 0\nPRINT a(i%)\n', 'INDEX_OUT_OF_RANGE'),
    ('DIM a(1 TO 3)\ni% = 4\na(i%) = 1\n', 'INDEX_OUT_OF_RANGE'),
    ('DIM a(1 TO 2, -1 TO 1)\ni% = 2\nPRINT a(1, i%)\n',
     'INDEX_OUT_OF_RANGE'),
    ('DIM a(1 TO 2, -1 TO 1)\ni% = -2\nPRINT a(2, i%)\n',
     'INDEX_OUT_OF_RANGE'),
    ('DIM a(1 TO 2, 1 TO 2, 1 TO 2)\ni% = 3\na(i%, 1, 1) = 1\n',
     'INDEX_OUT_OF_RANGE'),
    ('i% = 11\nb(i%) = 1\n', 'INDEX_OUT_OF_RANGE'),
    ('n% = 2\nDIM d(n%)\ni% = 3\nd(i%) = 1\n', 'INDEX_OUT_OF_RANGE'),
    ('DIM SHARED g(2)\nCALL s\nSUB s\ni% = -1\ng(i%) = 1\nEND SUB\n',
     'INDEX_OUT_OF_RANGE'),
    ('DIM a(2)\nCALL s(a())\nSUB s(p())\ni% = 3\nPRINT p(i%)\nEND SUB\n',
     'INDEX_OUT_OF_RANGE'),
    ('DIM a(2)\ni% = 2\nPRINT UBOUND(a, i%)\n', 'INDEX_OUT_OF_RANGE'),
    ('n% = 1\nDIM a(3 TO n%)\n', 'INDEX_OUT_OF_RANGE'),
    ('i% = 256\nPRINT CHR$(i%)\n', 'INVALID_OPERAND_VALUE'),
    ('i% = -1\nPRINT CHR$(i%)\n', 'INVALID_OPERAND_VALUE'),
    ('s$ = ""\nPRINT ASC(s$)\n', 'INVALID_OPERAND_VALUE'),
    ('i% = -1\nPRINT LEFT$("abc", i%)\n', 'INVALID_OPERAND_VALUE'),
    ('i% = -1\nPRINT RIGHT$("abc", i%)\n', 'INVALID_OPERAND_VALUE'),
    ('i% = 0\nPRINT MID$("abc", i%)\n', 'INVALID_OPERAND_VALUE'),
    ('i% = -1\nPRINT MID$("abc", 1, i%)\n', 'INVALID_OPERAND_VALUE'),
    ('i% = -1\nPRINT SPACE$(i%)\n', 'INVALID_OPERAND_VALUE'),
    ('i% = -1\nPRINT STRING$(i%, 65)\n', 'INVALID_OPERAND_VALUE'),
    ('i% = 300\nPRINT STRING$(2, i%)\n', 'INVALID_OPERAND_VALUE'),
    ('s$ = ""\nPRINT STRING$(2, s$)\n', 'INVALID_OPERAND_VALUE'),
    ('i% = 0\nPRINT INSTR(i%, "abc", "b")\n', 'INVALID_OPERAND_VALUE'),
    ('x# = -8\nPRINT x# ^ .5#\n', 'INVALID_OPERAND_VALUE'),
    ('READ a\n', 'DEVICE_ERROR'),
    ('READ a, b\nDATA 1\n', 'DEVICE_ERROR'),
    ('READ a%\nDATA abc\n', 'DEVICE_ERROR'),
    ('READ a#\nDATA "x"\n', 'DEVICE_ERROR'),
    ('READ a%\nDATA 40000\n', 'INVALID_CELL_VALUE'),
    ('i% = 256\nPOKE 0, i%\n', 'DEVICE_ERROR'),
    ('x& = 70000\nDEF SEG = x&\n', 'DEVICE_ERROR'),
]


def configure(tier, avoid):
    quick = tier == 'quick'
    p = gen.Params(max_stmts=12 if quick else 24, max_depth=2, expr_depth=3,
                   max_procs=2, edgy=0.3, error_rate=0.6, avoid=avoid)
    return {'examples': 160 if quick else 2500, 'params': p, 'tier': tier,
            'bounds': {'configs': [X.cfg_name(c) for c in CONFIGS],
                       'exhaustive_T': 300, 'sampled_k': 96},
            'tick_budget': 40000}


def setup_worker(cfg):
    X.set_parse_cache(True)


@st.composite
def scripts(draw):
    ext = [0.0, 0.99999994, 0.5, 1e-38, 3.4e38, -1.0, float('inf')]
    return {
        'inputs': [draw(st.sampled_from(
            ['', ',', '1', '1,2', '1,2,3', 'x', '1e400', '-0', '99999999999',
             ' 7 , 8 ', 'a,b,c', '1.5,2.5', 'nan', 'inf,1', '"q",2',
             '3,4,5,6'])) for _ in range(8)],
        'rnd': [draw(st.sampled_from(ext)) for _ in range(4)],
        'timer': [draw(st.sampled_from([0.0, 86399.99, -1.0, 1e30]))
                  for _ in range(3)],
        'inkey': [draw(st.sampled_from(['', 'a', '\x00H', 'abc' * 50,
                                        '\xff'])) for _ in range(3)],
    }


def strategy(cfg):
    return st.tuples(gen.programs(cfg['params']), gen.styles(), scripts(),
                     st.integers(0, 2 ** 31))


def items(cfg):
    out = [(src, want) for src, want in CAUSES]
    # the same causes after a handler has been armed and disarmed again:
    # the error must be fatal with the same category
    for src, want in CAUSES:
        if 'ON ERROR' in src.upper() or 'SUB ' in src.upper() or \
                'FUNCTION ' in src.upper() or 'DATA' in src.upper():
            continue
        out.append(('ON ERROR GOTO hzz\nON ERROR GOTO 0\n' + src +
                    'END\nhzz: PRINT "handler"\nRESUME NEXT\n', want))
    # ... and with ON ERROR GOTO 0 as the first statement of the active
    # handler: the pending error becomes fatal with the same category
    for src, want in CAUSES:
        if 'ON ERROR' in src.upper() or 'SUB ' in src.upper() or \
                'FUNCTION ' in src.upper():
            continue
        out.append(('ON ERROR GOTO hzz\n' + src +
                    'END\nhzz: ON ERROR GOTO 0\nPRINT "after"\nEND\n', want))
    return out


def totality(text, script, cfg, seedv=0, interrupts=True):
    failures = []
    info = {'accepted': False, 'ticks': 0, 'io': 0, 'k_tested': 0,
            'k_nontrivial': 0}
    sc = X.Script(**script)
    for c in CONFIGS:
        m = X.compile_one(text, *c)
        if m.kind != 'accepted':
            continue
        info['accepted'] = True
        name = X.cfg_name(c)
        rr = X.execute(m.module, sc, tick_budget=cfg['tick_budget'])
        info['ticks'] = max(info['ticks'], rr.ticks)
        info['io'] = max(info['io'], rr.impl.n_calls)
        o = rr.outcome
        if o[0] == 'host_exc':
            failures.append(('host_exc:' + o[1], {
                'config': name, 'tb': o[2].tb[-1000:]}))
            continue
        if o[0] in ('budget', 'input_exhausted'):
            info['inconclusive'] = o[0]
            continue
        if o[0] not in ('end', 'trap'):
            failures.append(('undefined_end_state', {'config': name,
                                                     'outcome': o[:2]}))
        if o[0] == 'trap' and o[1] in M.MACHINE_TRAPS:
            pass        # C03's business; still a defined end state
        if not interrupts or 'ON ERROR' in text.upper():
            continue
        T = rr.ticks
        if T < 2:
            continue
        if T <= 300:
            ks = list(range(T))
        else:
            import random
            rng = random.Random(derive_seed(ID, seedv, T))
            ks = sorted(set([int(i * (T - 1) / 47) for i in range(48)] +
                            [rng.randrange(T) for _ in range(48)]))
        for k in ks:
            f = interrupt_at(m.module, sc, k, rr, cfg)
            info['k_tested'] += 1
            if 0 < k < T - 1:
                info['k_nontrivial'] += 1
            if f is not None:
                failures.append((f[0], dict(f[1], config=name, k=k, T=T)))
                break
        for k in ks[::5][:12]:
            f = interrupt_while_stopped(m.module, sc, k, cfg)
            info['k_tested'] += 1
            if f is not None:
                failures.append((f[0], dict(f[1], config=name, k=k, T=T)))
                break
    seen = {}
    for b, d in failures:
        seen.setdefault(b, d)
    return list(seen.items()), info


def interrupt_at(module, sc, k, free, cfg):
    """Run k ticks, deliver the interrupt through the CPU's own signal
    handler, tick once; the machine must stop there, unchanged."""
    state = {}

    def before(cpu, n):
        if n == k:
            state['snap'] = M.snapshot(cpu)
            state['calls'] = cpu.devices['terminal'].impl.n_calls
            cpu.signal_handler(signal.SIGINT, None)

    def after(cpu, n):
        if n == k + 1:
            state['after'] = M.snapshot(cpu)
            state['halted'] = cpu.halted
            state['reason'] = cpu.halt_reason.name
            state['trap'] = cpu.last_trap.name if cpu.last_trap else None
            state['calls_after'] = cpu.devices['terminal'].impl.n_calls

    rr = X.execute(module, sc, tick_budget=k + 1, before_tick=before,
                   on_tick=after)
    if rr.outcome[0] == 'host_exc':
        return ('interrupt:host_exc:' + rr.outcome[1],
                {'tb': rr.outcome[2].tb[-800:]})
    if 'after' not in state:
        return ('interrupt:not_reached', {'ticks': rr.ticks})
    if not state['halted'] or state['reason'] != 'TRAP' or \
            state['trap'] != 'KEYBOARD_INTERRUPT':
        return ('interrupt:not_stopped', {
            'halted': state['halted'], 'reason': state['reason'],
            'trap': state['trap']})
    a, b = state['snap'], state['after']
    # halted flag differs by design; everything else must be unchanged
    if (a[0],) + a[2:] != (b[0],) + b[2:]:
        which = [i for i in range(len(a)) if a[i] != b[i] and i != 1]
        return ('interrupt:state_changed', {'fields': which})
    if state['calls'] != state['calls_after']:
        return ('interrupt:device_call_after_request', {})
    return None


def interrupt_while_stopped(module, sc, k, cfg):
    """The request arrives while the machine stands between two
    instructions outside run() - before the first run() (k = 0) or stopped at
    a breakpoint after k instructions - and the run is then continued with
    run(): it must stop at once with the keyboard-interrupt error."""
    import contextlib
    import io
    machine, impl, out = X.make_machine(module, sc)
    cpu = machine.cpu
    n = [0]
    orig_tick = cpu.tick

    def counting_tick():
        n[0] += 1
        return orig_tick()
    cpu.tick = counting_tick
    try:
        with contextlib.redirect_stdout(io.StringIO()), \
                X.guard(X.RUN_TIMEOUT):
            if k > 0:
                bp = lambda c: n[0] >= k
                cpu.add_breakpoint(bp)
                cpu.run()
                cpu.del_breakpoint(bp)
                if n[0] != k or cpu.halt_reason.name != 'BREAKPOINT':
                    return None         # the run ended before k
            snap = M.snapshot(cpu)
            calls = impl.n_calls
            cpu.signal_handler(signal.SIGINT, None)
            cpu.run()
            after = M.snapshot(cpu)
    except X.HangGuard:
        return ('interrupt_stopped:hang', {})
    except X.ScriptExhausted:
        return None
    except BaseException as e:
        if isinstance(e, (KeyboardInterrupt, MemoryError)):
            raise
        h = X.HostExc(e, 'run')
        return ('interrupt_stopped:host_exc:' + h.bucket(),
                {'tb': h.tb[-800:]})
    trap = cpu.last_trap.name if cpu.last_trap else None
    if not cpu.halted or cpu.halt_reason.name != 'TRAP' or \
            trap != 'KEYBOARD_INTERRUPT':
        return ('interrupt_stopped:request_lost', {
            'halted': cpu.halted, 'reason': cpu.halt_reason.name,
            'trap': trap, 'ticks_after_request': n[0] - k})
    if (snap[0],) + snap[2:] != (after[0],) + after[2:]:
        return ('interrupt_stopped:state_changed', {})
    if impl.n_calls != calls:
        return ('interrupt_stopped:device_call_after_request', {})
    return None


def check(case, cfg):
    (prog, script0, stats), style, script, salt = case
    text = render.render(prog, style).text
    failures, info = totality(text, script, cfg, salt)
    key = digest([text, script])
    nontrivial = info['accepted'] and info['io'] >= 1 and info['ticks'] >= 20
    cls = []
    if info['accepted']:
        cls.append('accepted')
    if info['k_tested']:
        cls.append('interrupt_schedules')
    fl = []
    if failures:
        enc = cases.encode_case(prog, script, style)
        fl = [{'bucket': b, 'detail': d, 'case': enc} for b, d in failures]
    res = {'key': key, 'nontrivial': nontrivial, 'classes': cls,
           'failures': fl, 'inconclusive': info.get('inconclusive'),
           'sample': cases.sample_of(text, script, ticks=info['ticks'],
                                     interrupts_tested=info['k_tested'])
           if nontrivial and key[0] in '01' else None}
    res['extra_evals'] = info['k_tested']
    return res


def check_item(item, cfg):
    src, want = item
    failures = []
    sc = X.Script()
    for c in X.ALL_CONFIGS:
        m = X.compile_one(src, *c)
        name = X.cfg_name(c)
        if m.kind != 'accepted':
            failures.append(('cause:not_accepted', {'config': name,
                                                    'got': repr(m)}))
            continue
        rr = X.execute(m.module, sc, tick_budget=20000)
        o = rr.outcome
        if o[0] != 'trap' or o[1] != want:
            failures.append(('cause:%s/%s' % (want, '-'.join(
                map(str, o[:2]))), {'config': name, 'want': want,
                                    'got': o[:2]}))
    seen = {}
    for b, d in failures:
        seen.setdefault(b, d)
    return {'key': digest(src), 'nontrivial': True,
            'classes': ['cause:' + want],
            'failures': [{'bucket': b, 'detail': d,
                          'case': {'text': src, 'want': want}}
                         for b, d in seen.items()],
            'sample': {'source': src, 'expected_trap': want}
            if digest(src)[0] in '0123' else None}


def replay(obj, cfg):
    if 'want' in obj:
        return {'failures': check_item((obj['text'], obj['want']),
                                       cfg)['failures']}
    failures, info = totality(obj['text'], obj.get('script') or {}, cfg)
    return {'failures': [{'bucket': b, 'detail': d, 'case': obj}
                         for b, d in failures]}


def shrink(failure, cfg):
    obj = failure['case']
    if not obj.get('ast'):
        return failure
    prog, script, style, text = cases.decode_case(obj)
    bucket = failure['bucket']

    def still(p):
        fs, _ = totality(render.render(p, style).text, script, cfg,
                         interrupts=bucket.startswith('interrupt'))
        return any(b == bucket for b, _ in fs)
    small = SH.shrink_program(prog, still, max_tests=50)
    fs, _ = totality(render.render(small, style).text, script, cfg)
    for b, d in fs:
        if b == bucket:
            return {'bucket': b, 'detail': d,
                    'case': cases.encode_case(small, script, style)}
    return failure
