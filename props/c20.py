"""C20 - Compilation and execution are deterministic.

Same source + same options => byte-identical sections 1-4 and identical
listing, whatever the process, hash seed, working directory and whatever was
compiled before in the same process; same module + same script => identical
trace, outcome and instruction count."""
import json
import os
import subprocess
import sys
import tempfile

from hypothesis import strategies as st

from qv import gen, render, run as X, cases, ROOT
from qv.runner import digest
from props.c20_child import hashes, run_hash

ID = 'C20'
LEVEL = 'exploration'
RULE = ('Programs from the typed generator G (labels, DEFtype ranges, >= 2 '
        'routines, STATIC / SHARED variables favoured) and invalid variants '
        '(one random token deleted), each compiled at O0, O2 and O2-g under '
        'these conditions: twice in one process; again after a drawn history '
        'of other compilations (other texts, other options, failing '
        'compilations) in the same process; in fresh child processes with '
        'PYTHONHASHSEED = 0, 1, 12345 and random, a different working '
        'directory and reversed batch order, in two of them each text '
        'preceded by a sibling program with the same names but other record '
        'sizes, array bounds, CONST values and DEFtype types.  sha256 of sections 1-4 and of '
        'str(code) must agree everywhere; each accepted module (O0 and '
        'O2-g) is run twice in-process and once per child; one case in three '
        'comes from the DATA / RESTORE-label or the ON ERROR / RESUME '
        'generator: trace, outcome and tick count must '
        'agree.  Non-trivial: accepted and at least two of {procedure, '
        'label (GOTO/GOSUB), DEFtype, STATIC or SHARED variable} (the places '
        'where sets and shared registries are involved).')
ASSUMPTIONS = [
    'wall-clock dependence can only show through the time that naturally '
    'passes between processes (no clock-faking tool available)',
    'the debug section (gzip-compressed pickle with a time stamp) is excluded '
    'by the property itself',
]
CONFIGS = [(0, False), (2, False), (2, True)]
RUN_CONFIGS = [(0, False), (2, True)]     # modules that are also executed
_batch = []          # (text, script, key) of this shard, for the child runs


def configure(tier, avoid):
    quick = tier == 'quick'
    p = gen.Params(max_stmts=12 if quick else 24, max_depth=2, expr_depth=2,
                   max_procs=2, dead_code=0.5, mixed_case_types=True, avoid=avoid)
    return {'examples': 128 if quick else 1200, 'params': p,
            'bounds': {'configs': [X.cfg_name(tuple(c)) for c in CONFIGS],
                       'hash_seeds': ['0', '1', '12345', 'random']},
            'tick_budget': 40000}


def setup_worker(cfg):
    X.set_parse_cache(False)
    del _batch[:]


@st.composite
def other_programs(draw):
    """Programs of the DATA / RESTORE-label generator (C15) and of the
    ON ERROR / RESUME generator (C10): label tables and the statement lookup
    of RESUME are places where sets and caches could leak."""
    if draw(st.booleans()):
        from props.c15 import data_programs
        prog, stats = draw(data_programs())
        return prog, {}, dict(stats, data_generator=1)
    from props.c10 import error_programs
    prog, stats = draw(error_programs())
    return prog, {}, dict(stats, error_generator=1)


def strategy(cfg):
    return st.tuples(
        st.one_of(gen.programs(cfg['params']), gen.programs(cfg['params']),
                  other_programs()),
        gen.styles(), st.integers(0, 10 ** 6), st.booleans())


def variant(prog):
    """A sibling program with the same names but other sizes and values:
    one more field in every record type that is a field of another type,
    wider arrays, other CONST values, other DEFtype types.  It is compiled
    before the program itself in some child processes; whatever a name-keyed
    cache remembers from it must not leak."""
    import copy
    from qv import ast as A
    p2 = copy.deepcopy(prog)
    inner = set()
    for s in p2.body:
        if isinstance(s, A.TypeDef):
            for _, ft in s.fields:
                if A.is_rec(ft):
                    inner.add(ft[2:])
    rot = {'%': '#', '&': '$', '!': '%', '#': '&', '$': '!'}
    for s, _ in A.walk_stmts(p2.body):
        if isinstance(s, A.TypeDef) and s.name in inner:
            s.fields.insert(0, ('zzv', '#'))
            s.fields.append(('zzw', '$'))
        elif isinstance(s, A.Const) and isinstance(s.e, A.Num):
            s.e = A.Num(s.e.t, 3, '3')
        elif isinstance(s, A.DefType):
            s.t = rot[s.t]
        elif isinstance(s, A.Dim):
            for d in s.decls:
                if d.dims:
                    d.dims = [(lo, A.Bin('+', hi, A.Num('%', 2, '2'), '%'))
                              for lo, hi in d.dims]
    return p2


def check(case, cfg):
    (prog, script, stats), style, salt, break_it = case
    text = render.render(prog, style).text
    try:
        vtext = render.render(variant(prog), style).text
    except Exception:
        vtext = ''
    if break_it:
        # an invalid variant: drop one token-ish chunk
        words = text.split(' ')
        if len(words) > 3:
            del words[salt % len(words)]
            text = ' '.join(words)
    key = digest([text, script])
    failures = []
    first = {}
    sc = X.Script(**script)
    accepted = False
    for c in CONFIGS:
        a = X.compile_one(text, *c)
        first[tuple(c)] = hashes(a)
        b = X.compile_one(text, *c)
        if hashes(b) != first[tuple(c)]:
            failures.append(('same_process_repeat', {'config': list(c)}))
        if a.kind == 'accepted' and c in RUN_CONFIGS:
            accepted = True
            r1 = X.execute(a.module, sc, tick_budget=cfg['tick_budget'])
            r2 = X.execute(b.module, sc, tick_budget=cfg['tick_budget'])
            if run_hash(r1) != run_hash(r2):
                failures.append(('execution_repeat', {
                    'config': list(c),
                    'o1': r1.outcome[:2], 'o2': r2.outcome[:2],
                    't1': r1.ticks, 't2': r2.ticks}))
    # history: compile earlier texts of this shard (other programs, other
    # options, failures), then this text again
    hist = _batch[-3:]
    for k, (t, s, _, _v) in enumerate(hist):
        X.compile_one(t, (salt + k) % 3, bool((salt >> k) & 1))
    X.compile_one('PRINT "x" +\n', 1, True)              # a failing one
    X.compile_one('DEFSTR a-z\nx = "s"\n10 GOTO 10\n', 2, False)
    for c in CONFIGS:
        again = hashes(X.compile_one(text, *c))
        if again != first[tuple(c)]:
            failures.append(('after_history', {
                'config': list(c), 'first': first[tuple(c)], 'again': again}))
    _batch.append((text, script, key, vtext))
    shapes = cases.shape_classes(prog)
    nontrivial = accepted and sum([
        'Proc' in shapes,
        bool(stats.get('goto') or stats.get('gosub')),
        bool(stats.get('deftype')),
        bool(stats.get('static_decl') or stats.get('shared_decl'))]) >= 2
    cls = ['accepted' if accepted else 'not_accepted']
    for k in ('deftype', 'goto', 'gosub', 'static_decl', 'shared_decl'):
        if stats.get(k):
            cls.append('g:' + k)
    fl = [{'bucket': b, 'detail': d,
           'case': {'text': text, 'script': script, 'variant': vtext}}
          for b, d in failures]
    return {'key': key, 'nontrivial': nontrivial, 'classes': cls,
            'failures': fl,
            'sample': {'source': text} if nontrivial and key[0] in '01'
            else None, '_first': first}


def finish_shard(cfg):
    """Child-process conditions for everything this shard compiled."""
    if not _batch:
        return []
    out = []
    texts = [b[0] for b in _batch]
    scripts = [b[1] for b in _batch]
    variants = [b[3] for b in _batch]
    X.set_parse_cache(False)
    base = {}
    runs0 = {}
    for i, t in enumerate(texts):
        for c in CONFIGS:
            base['%d:%d:%d' % (i, c[0], int(c[1]))] = hashes(
                X.compile_one(t, *c))
        for rc in RUN_CONFIGS:
            c0 = X.compile_one(t, *rc)
            if c0.kind == 'accepted':
                runs0['%d:%d' % (i, int(rc[1]))] = run_hash(X.execute(
                    c0.module, X.Script(**scripts[i]),
                    tick_budget=cfg['tick_budget']))
    tmp = tempfile.mkdtemp(prefix='c20_')
    try:
        bf = os.path.join(tmp, 'batch.json')
        conds = [('0', 'forward'), ('1', 'reverse'), ('12345', 'forward'),
                 ('random', 'reverse')]
        for seedv, order in conds:
            with open(bf, 'w') as f:
                json.dump({'verif_root': ROOT, 'texts': texts,
                           'run_configs': RUN_CONFIGS,
                           'variants': variants if order == 'reverse'
                           else None,
                           'scripts': scripts, 'configs': CONFIGS,
                           'order': order,
                           'tick_budget': cfg['tick_budget']}, f)
            env = dict(os.environ)
            env['PYTHONHASHSEED'] = seedv
            cwd = tmp if order == 'reverse' else ROOT
            try:
                p = subprocess.run(
                    [sys.executable,
                     os.path.join(ROOT, 'props', 'c20_child.py'), bf],
                    cwd=cwd, env=env, capture_output=True, text=True,
                    timeout=3600)
            except subprocess.TimeoutExpired:
                # an overloaded machine: nothing can be concluded from
                # this condition (never a violation)
                out.append({'key': None, 'classes': [
                    'child:timeout:hashseed=' + seedv], 'failures': [],
                    'inconclusive': 'child_process_timeout'})
                continue
            if p.returncode != 0:
                raise RuntimeError('C20 child failed: ' + p.stderr[-800:])
            res = json.loads(p.stdout)
            for k, h in res['hashes'].items():
                i = int(k.split(':')[0])
                fails = []
                if base.get(k) != h:
                    fails.append({'bucket': 'child_process:hashseed=%s' % (
                        seedv if seedv != 'random' else 'random'),
                        'detail': {'key': k, 'parent': base.get(k),
                                   'child': h, 'order': order},
                        'case': {'text': texts[i], 'script': scripts[i],
                                 'variant': variants[i]}})
                out.append({'key': _batch[i][2] + ':' + seedv + k,
                            'nontrivial': False, 'classes': [
                                'child:hashseed=' + seedv],
                            'failures': fails})
            for i, h in res['runs'].items():
                if runs0.get(i) != h:
                    out.append({'key': None, 'classes': [], 'failures': [{
                        'bucket': 'child_execution:hashseed=%s' % seedv,
                        'detail': {'parent': runs0.get(i), 'child': h},
                        'case': {'text': texts[int(i.split(':')[0])],
                                 'script': scripts[int(i.split(':')[0])]}}]})
    finally:
        import shutil
        shutil.rmtree(tmp, ignore_errors=True)
    return out


def replay(obj, cfg):
    """Replay = the in-process and child conditions for one text."""
    del _batch[:]
    text, script = obj['text'], obj.get('script') or {}
    failures = []
    for c in CONFIGS:
        a = hashes(X.compile_one(text, *c))
        X.compile_one('PRINT "x" +\n', 1, True)
        b = hashes(X.compile_one(text, *c))
        if a != b:
            failures.append({'bucket': 'same_process_repeat',
                             'detail': {'config': list(c)}, 'case': obj})
    _batch.append((text, script, 'replay', obj.get('variant') or ''))
    for r in finish_shard(cfg):
        failures.extend(r.get('failures', []))
    return {'failures': failures}
