"""Child process of the C20 check: compiles every text of a batch file at the
given configurations and prints the hashes.  Started with its own
PYTHONHASHSEED and working directory."""
import hashlib
import json
import sys


def main():
    batch = json.load(open(sys.argv[1]))
    sys.path.insert(0, batch['verif_root'])
    from qv import run as X
    X.set_parse_cache(False)
    order = batch.get('order', 'forward')
    items = list(enumerate(batch['texts']))
    if order == 'reverse':
        items.reverse()
    out = {}
    variants = batch.get('variants') or []
    for idx, text in items:
        for cfg in batch['configs']:
            if idx < len(variants) and variants[idx]:
                X.compile_one(variants[idx], cfg[0], bool(cfg[1]))
            out['%d:%d:%d' % (idx, cfg[0], int(cfg[1]))] = hashes(
                X.compile_one(text, cfg[0], bool(cfg[1])))
    # executions: run the first config of every accepted text
    runs = {}
    for idx, text in items:
        for rc in batch.get('run_configs') or [batch['configs'][0]]:
            c = X.compile_one(text, rc[0], bool(rc[1]))
            if c.kind == 'accepted':
                r = X.execute(c.module, X.Script(**batch['scripts'][idx]),
                              tick_budget=batch['tick_budget'])
                runs['%d:%d' % (idx, int(bool(rc[1])))] = run_hash(r)
    json.dump({'hashes': out, 'runs': runs}, sys.stdout)


def hashes(c):
    if c.kind != 'accepted':
        return repr(c.key())
    h = hashlib.sha256()
    for s in (1, 2, 3, 4):
        h.update(b'|%d|' % s + (c.sections.get(s) or b''))
    return h.hexdigest()[:20] + ':' + hashlib.sha256(
        c.listing.encode('utf-8', 'surrogatepass')).hexdigest()[:20]


def run_hash(r):
    from qv.cases import _norm
    return hashlib.sha256(repr((_norm(r.events), r.outcome[:2],
                                r.ticks)).encode()).hexdigest()[:20]


if __name__ == '__main__':
    main()
