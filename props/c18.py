"""C18 - INPUT assigns only well-typed values and re-prompts on bad lines.

Histories: INPUT statements with 1-4 targets of every type (scalar, array
element, record field) and every prompt form, answered by response histories
of 1-5 lines drawn from classes (valid, too few / too many fields,
non-numeric text for a numeric target at each position, out of range, blanks
around fields), followed by a continuation that uses GOSUB/RETURN, a SUB call
and a FUNCTION call and prints all targets and bystander variables.  Oracle:
the reference interpreter's INPUT model (prompt + "? " rule, accept rule,
"Redo from start", assignment in order with conversion) for the trace, and
the C03 monitor for the operand-stack depth at statement starts."""
from hypothesis import strategies as st

from qv import ast as A
from qv import gen as G
from qv import render, run as X, cases, shrink as SH, monitor as M
from qv.runner import digest
from props import c01

ID = 'C18'
LEVEL = 'exploration'
RULE = ('1-2 INPUT statements per program, 1-4 targets of every type '
        '(scalar / array element / record field), prompt forms: none, '
        '"p"; , "p", , leading ";" ; response histories of 1-5 lines from '
        'the classes valid / too few fields / too many fields / non-numeric '
        'text at field k / out of range for the target type / blanks around '
        'fields, always ending in a valid line; continuation with GOSUB / '
        'RETURN, SUB and FUNCTION calls and prints of all targets and '
        'bystanders; all six configurations.  Non-trivial: >= 2 targets and '
        '>= 1 rejected line in which a later field was valid and an earlier '
        'one invalid.  Distinct by (text, script).')
ASSUMPTIONS = c01.ASSUMPTIONS + [
    'quoted fields, empty numeric fields and fractional text for integer '
    'targets are outside the agreed subset and not generated']


class IGen:
    def __init__(self, draw):
        self.draw = draw
        self.stats = {}
        self.lines = []

    def i(self, lo, hi):
        return self.draw(st.integers(lo, hi))

    def chance(self, p):
        return self.draw(st.floats(0, 1, allow_nan=False)) < p

    def pick(self, seq):
        seq = list(seq)
        return seq[self.i(0, len(seq) - 1)]

    def note(self, k):
        self.stats[k] = self.stats.get(k, 0) + 1

    def valid_field(self, t):
        if t == '$':
            return self.pick(['abc', 'x y', 'Hello', '12', 'q', 'Daddy did',
                              'd', '1D2', 'e5', '&HFF'])
        if t == '%':
            return str(self.pick([0, 7, -7, 32767, -32768, 123]))
        if t == '&':
            return str(self.pick([0, 100000, -2147483648, 2147483647, 5]))
        if t == '!':
            return self.pick(['1.5', '-2', '0', '3e2', '.25', '77',
                              '3.4E38', '1e-10'])
        return self.pick(['1.5', '-2', '0', '3d2', '.25', '1D+100',
                          '123456789.125'])

    def bad_field(self, t):
        if t == '%':
            return self.pick(['x', '32768', '-32769', '1e', '12a', '99999'])
        if t == '&':
            return self.pick(['x', '2147483648', '-2147483649', '--1', 'a1'])
        if t == '!':
            return self.pick(['x', '1e39', '-4e38', '1..2', 'e5', '1e400'])
        return self.pick(['x', '1e400', '1.2.3', 'd5', '-1d999'])

    def response(self, types, kind):
        fields = [self.valid_field(t) for t in types]
        if kind == 'valid':
            pass
        elif kind == 'few':
            if len(fields) > 1:
                fields = fields[:self.i(1, len(fields) - 1)]
            else:
                return None
        elif kind == 'many':
            fields = fields + [self.pick(['1', 'x', ''])]
        elif kind == 'bad':
            nums = [k for k, t in enumerate(types) if t != '$']
            if not nums:
                return None
            k = self.pick(nums)
            fields[k] = self.bad_field(types[k])
            if k < len(types) - 1:
                self.note('bad_field_before_valid_field')
        if self.chance(0.3):
            fields = [' ' * self.i(0, 2) + f + ' ' * self.i(0, 2)
                      for f in fields]
        return ','.join(fields)

    def program(self):
        top = []
        # targets
        top.append(A.TypeDef('rq', [('fa', '%'), ('fb', '#'), ('fc', '$')]))
        top.append(A.Dim('dim', [A.Decl('rz', 'T:rq', None, True),
                                 A.Decl('az', '&', [(A.Num('%', 1, '1'),
                                                     A.Num('%', 3, '3'))],
                                        True)]))
        by = [('b1%', '%', A.Num('%', 11, '11')), ('b2$', '$', A.Str('keep')),
              ('b3#', '#', A.Num('#', 2.5, '2.5#'))]
        for n, t, e in by:
            top.append(A.Assign(A.LV(n, [], [], t), e))
        inputs = []
        all_targets = []
        for q in range(self.i(1, 2)):
            nt = self.i(1, 4)
            lvs = []
            for _ in range(nt):
                r = self.i(0, 9)
                if r <= 5:
                    t = self.pick('%&!#$')
                    lvs.append(A.LV('t%d%s' % (len(all_targets) + len(lvs),
                                               t), [], [], t))
                elif r <= 7:
                    lvs.append(A.LV('az', [A.Num('%', self.i(1, 3), None)],
                                    [], '&'))
                    lvs[-1].idx[0].text = str(lvs[-1].idx[0].v)
                else:
                    f, ft = self.pick([('fa', '%'), ('fb', '#'), ('fc', '$')])
                    lvs.append(A.LV('rz', [], [f], ft))
            types = [lv.t for lv in lvs]
            form = self.i(0, 3)
            prompt, sep = None, ';'
            if form == 1:
                prompt, sep = self.pick(['Value', 'a b', '']), ';'
            elif form == 2:
                prompt, sep = self.pick(['Value', 'Enter x:', '']), ','
            same = self.chance(0.25)
            self.note('prompt_form_%d' % form)
            top.append(A.Input(same, prompt, sep, lvs))
            # response history
            nrej = self.i(0, 4)
            for _ in range(nrej):
                kind = self.pick(['few', 'many', 'bad', 'bad', 'bad'])
                line = self.response(types, kind)
                if line is not None:
                    self.lines.append(line)
                    self.note('rejected_' + kind)
            self.lines.append(self.response(types, 'valid'))
            if nt >= 2:
                self.note('two_targets')
            all_targets.extend(lvs)
            top.append(A.Print([x for lv in lvs for x in (lv, ';')]))
            top.append(A.Gosub('gz'))
            top.append(A.CallSub('sz', [A.Num('%', q, str(q))]))
            top.append(A.Print([A.FCall('fz%', [A.Num('%', 3, '3')], '%')]))
        top.append(A.Print([x for n, t, e in by
                            for x in (A.LV(n, [], [], t), ';')]))
        top.append(A.End())
        top.append(A.LabelDef('gz'))
        top.append(A.Print([A.Str('g')]))
        top.append(A.Return())
        top.append(A.Proc('sub', 'sz', [A.Param('pz%', '%')], False,
                          [A.Print([A.Str('s'), ';',
                                    A.LV('pz%', [], [], '%')])]))
        top.append(A.Proc('function', 'fz%', [A.Param('nz%', '%')], False,
                          [A.RetAssign('fz%', A.Bin(
                              '*', A.LV('nz%', [], [], '%'),
                              A.Num('%', 2, '2'), '%'), '%')], '%'))
        return A.Program(top)


@st.composite
def input_programs(draw):
    g = IGen(draw)
    prog = g.program()
    return prog, {'inputs': g.lines}, g.stats


def configure(tier, avoid):
    quick = tier == 'quick'
    return {'examples': 300 if quick else 5000,
            'bounds': {'targets': 4, 'history': 5},
            'tick_budget': 60000, 'avoid': avoid}


def setup_worker(cfg):
    X.set_parse_cache(True)


def strategy(cfg):
    return st.tuples(input_programs(), G.styles())


def judge(prog, script, style, cfg):
    failures, info = c01.judge(prog, script, style, cfg)
    # operand stack depth after the statement (C03 monitor, -g module)
    text = info['text']
    m = X.compile_one(text, 1, True)
    if m.kind == 'accepted':
        mon = M.SafetyMonitor(m.module)
        rr = X.execute(m.module, X.Script(**script),
                       tick_budget=cfg['tick_budget'],
                       before_tick=mon.before, on_tick=mon.after)
        for kind, detail in mon.finish(rr):
            failures.append(('monitor:' + kind, dict(detail, config='O1-g')))
    return failures, info


def check(case, cfg):
    (prog, script, stats), style = case
    failures, info = judge(prog, script, style, cfg)
    key = digest([info['text'], script])
    nontrivial = info['accepted'] and not info['inconclusive'] and \
        stats.get('two_targets', 0) > 0 and \
        stats.get('bad_field_before_valid_field', 0) > 0
    cls = sorted('g:' + k for k in stats) + ['ref:' + info['ref_outcome']]
    fl = []
    if failures:
        enc = cases.encode_case(prog, script, style)
        fl = [{'bucket': b, 'detail': d, 'case': enc} for b, d in failures]
    return {'key': key, 'nontrivial': nontrivial, 'classes': cls,
            'failures': fl, 'inconclusive': info['inconclusive'],
            'sample': cases.sample_of(info['text'], script)
            if nontrivial and key[0] in '01' else None}


def replay(obj, cfg):
    if 'expect' in obj:
        return c01.replay(obj, cfg)
    prog, script, style, text = cases.decode_case(obj)
    failures, info = judge(prog, script, style, cfg)
    return {'failures': [{'bucket': b, 'detail': d, 'case': obj}
                         for b, d in failures]}


def shrink(failure, cfg):
    prog, script, style, text = cases.decode_case(failure['case'])
    bucket = failure['bucket']

    def still(p):
        fs, _ = judge(p, script, style, cfg)
        return any(b == bucket for b, _ in fs)
    small = SH.shrink_program(prog, still, max_tests=40)
    fs, _ = judge(small, script, style, cfg)
    for b, d in fs:
        if b == bucket:
            return {'bucket': b, 'detail': d,
                    'case': cases.encode_case(small, script, style)}
    return failure
