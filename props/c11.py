"""C11 - The debug map attributes every instruction to its source statement.

Structural predicates over module.debug_info and an own decode of the code
section; semantic predicates against the renderer's ground truth through
*unique literals* (each string literal occurs once in the source, so every
`push$` of it identifies the source line that must own the instruction);
dynamic predicates against the reference interpreter (line of every executed
PRINT, line of the trap)."""
import contextlib
import io

from hypothesis import strategies as st

from qv import ast as A
from qv import gen, render, run as X, cases, shrink as SH, decode as D
from qv import ref as RF
from qv.runner import digest

ID = 'C11'
LEVEL = 'exploration'
RULE = ('Programs from the typed generator G with a unique string literal '
        'in (nearly) every statement, every statement kind and nesting, '
        'empty blocks, several statements per line (drawn style), compiled '
        'at O0, O1, O2 with -g.  Non-trivial: the program has an empty block '
        'or >= 2 statements on one line, and the O2 code section differs '
        'from the O0 one.  Distinct by (text).')
ASSUMPTIONS = [
    'routine prologue (frame) and epilogue (ret / retv and the read of the '
    'return value) are produced by no statement and are exempt from the '
    '"every instruction has a statement" clause',
    'only simple-statement, single-line IF and block start records are '
    'matched to source lines (through unique literals, executed PRINTs and '
    'traps)',
]
CONFIGS = ((0, True), (1, True), (2, True))


def configure(tier, avoid):
    quick = tier == 'quick'
    p = gen.Params(max_stmts=14 if quick else 28, max_depth=2 if quick else 3,
                   expr_depth=2, max_procs=2, empty_blocks=0.25,
                   unique_literals=True, avoid=avoid, edgy=0.02, dead_code=0.3,
                   error_rate=0.1)
    return {'examples': 300 if quick else 5000, 'params': p,
            'bounds': {'configs': [X.cfg_name(c) for c in CONFIGS]},
            'tick_budget': 60000}


def setup_worker(cfg):
    X.set_parse_cache(True)


def strategy(cfg):
    return st.tuples(gen.programs(cfg['params']), gen.styles())


def find_stmt(dbg, addr, cpu=None):
    with contextlib.redirect_stdout(io.StringIO()):
        return dbg.find_stmt(addr, cpu)


class FakeCpu:
    """find_stmt only needs get_instruction_at(0) for address 0."""

    def __init__(self, module):
        self.module = module


def structural(text, module):
    out = []

    def bad(kind, **d):
        if len(out) < 10:
            out.append((kind, d))
    dbg = module.debug_info
    instrs = D.decode(module.code)
    starts = D.starts(instrs)
    end = len(module.code)
    boundary = starts | {end}
    recs = list(dbg.stmts)
    for r in recs:
        if r.start_offset not in boundary or r.end_offset not in boundary:
            bad('record_not_on_instruction_boundary',
                node=type(r.node).__name__, start=r.start_offset,
                end=r.end_offset)
        if r.end_offset < r.start_offset:
            bad('record_negative_range', node=type(r.node).__name__)
    # laminar family
    nonempty = sorted(((r.start_offset, r.end_offset, type(r.node).__name__)
                       for r in recs if r.end_offset > r.start_offset))
    stack = []
    for s, e, n in sorted(nonempty, key=lambda x: (x[0], -x[1])):
        while stack and stack[-1][1] <= s:
            stack.pop()
        if stack and e > stack[-1][1]:
            bad('records_overlap', a=stack[-1], b=(s, e, n))
        stack.append((s, e, n))
    # routines
    rts = D.routines(instrs)
    rrecs = sorted(dbg.routines.values(), key=lambda r: r.start_offset)
    # the main routine has no record; procedures follow it
    for rec in rrecs:
        match = [(a, b) for a, b in rts if a == rec.start_offset]
        if not match:
            bad('routine_record_start', name=rec.name,
                start=rec.start_offset)
        elif match[0][1] != rec.end_offset:
            bad('routine_record_end', name=rec.name, end=rec.end_offset,
                next_routine=match[0][1])
    # every body instruction has a statement
    for (a, b) in rts:
        body = [i for i in instrs if a <= i.addr < b]
        # exempt: frame, trailing ret / (readl _retval; retv)
        exempt = {body[0].addr}
        k = len(body) - 1
        if body[k].op in ('ret', 'retv'):
            exempt.add(body[k].addr)
            if body[k].op == 'retv' and k >= 1 and \
                    body[k - 1].op.startswith('readl'):
                exempt.add(body[k - 1].addr)
        for ins in body:
            if ins.addr in exempt:
                continue
            st_ = find_stmt(dbg, ins.addr)
            if st_ is None:
                bad('instruction_without_statement', addr=ins.addr,
                    op=ins.op)
                break
    # unique literals
    lines = text.split('\n')
    for ins in instrs:
        if ins.op != 'push$':
            continue
        lit = module.literals[ins.args[0]]
        if not (lit.startswith('u') and lit.endswith('q') and
                lit[1:-1].isdigit()):
            continue
        needle = '"%s"' % lit
        where = [k + 1 for k, ln in enumerate(lines) if needle in ln]
        if len(where) != 1:
            continue
        import re
        if re.search(r'\bconst\b', lines[where[0] - 1].split(needle)[0],
                     re.I):
            continue      # the value of a CONST is pushed where it is used
        st_ = find_stmt(dbg, ins.addr)
        if st_ is None:
            bad('literal_instruction_without_statement', literal=lit)
            continue
        if st_.source_start_line != where[0]:
            bad('literal_attributed_to_wrong_line:' +
                type(st_.node).__name__, literal=lit,
                record_line=st_.source_start_line, source_line=where[0])
            continue
        extract = text[st_.source_start_offset:st_.source_end_offset]
        if needle not in extract:
            bad('source_extract_without_the_literal:' +
                type(st_.node).__name__, literal=lit, extract=extract[:80])
    return out


def dynamic(prog, script, rendered, module, cfg):
    """Lines of executed PRINTs and of the trap against R."""
    out = []
    dbg = module.debug_info
    lines = []

    def before(cpu, n):
        pc = cpu.pc
        code = module.code
        if code[pc] == 27 and code[pc + 1] == 2 and code[pc + 2] == 2:
            s = find_stmt(dbg, pc, cpu)
            lines.append(None if s is None else s.source_start_line)
    rr = X.execute(module, X.Script(**script), tick_budget=cfg['tick_budget'],
                   before_tick=before)
    it = RF.Interp(prog, script, rendered)
    evs, outc = it.run()
    if outc[0] in ('unsupported', 'budget', 'input_exhausted') or \
            rr.outcome[0] in ('budget', 'input_exhausted', 'host_exc'):
        return out, 'inconclusive'
    want = []
    for s in it.print_stmts:
        pos = rendered.pos.get(id(s)) or {}
        want.append(pos.get('line'))
    n = min(len(lines), len(want))
    for k in range(n):
        if lines[k] != want[k]:
            out.append(('print_reported_against_wrong_line', {
                'k': k, 'record_line': lines[k], 'source_line': want[k]}))
            break
    if outc[0] == 'error' and rr.outcome[0] == 'trap' and \
            outc[2] is not None:
        pos = rendered.pos.get(id(outc[2])) or {}
        ok_lines = {v for k2, v in pos.items() if not k2.startswith('idx_')}
        if ok_lines and rr.outcome[3] not in ok_lines and not (
                min(ok_lines) <= (rr.outcome[3] or -1) <= max(ok_lines)):
            out.append(('error_reported_against_wrong_line:' + type(
                outc[2]).__name__, {
                    'record_line': rr.outcome[3],
                    'source_lines': sorted(ok_lines), 'class': outc[1]}))
    return out, None


def judge(prog, script, style, cfg):
    rendered = render.render(prog, style)
    text = rendered.text
    failures = []
    info = {'accepted': False, 'text': text, 'code': {}}
    for c in CONFIGS:
        m = X.compile_one(text, *c)
        if m.kind != 'accepted':
            continue
        info['accepted'] = True
        info['code'][c[0]] = m.sections.get(4)
        name = X.cfg_name(c)
        try:
            fs = structural(text, m.module)
        except D.DecodeError as e:
            fs = [('code_does_not_decode', {'msg': str(e)})]
        for k, d in fs:
            failures.append((k, dict(d, config=name)))
        fs, inc = dynamic(prog, script, rendered, m.module, cfg)
        if inc:
            info['inconclusive'] = inc
        for k, d in fs:
            failures.append((k, dict(d, config=name)))
    seen = {}
    for b, d in failures:
        seen.setdefault(b, d)
    return list(seen.items()), info


def check(case, cfg):
    (prog, script, stats), style = case
    failures, info = judge(prog, script, style, cfg)
    key = digest(info['text'])
    shapes = cases.shape_classes(prog)
    multi = any(':' in ln.split("'")[0] for ln in info['text'].split('\n'))
    empties = bool(shapes & {'empty_if_body', 'empty_else_body',
                             'empty_case_body', 'empty_loop', 'empty_proc'})
    differs = info['code'].get(0) != info['code'].get(2)
    nontrivial = info['accepted'] and (empties or multi) and differs
    cls = sorted(shapes & {'empty_if_body', 'empty_else_body',
                           'empty_case_body', 'empty_loop', 'empty_proc',
                           'Select', 'IfLine', 'For', 'Do', 'While', 'Proc'})
    if multi:
        cls.append('several_statements_per_line')
    fl = []
    if failures:
        enc = cases.encode_case(prog, script, style)
        fl = [{'bucket': b, 'detail': d, 'case': enc} for b, d in failures]
    return {'key': key, 'nontrivial': nontrivial, 'classes': cls,
            'failures': fl, 'inconclusive': info.get('inconclusive'),
            'sample': cases.sample_of(info['text'], script)
            if nontrivial and key[0] in '01' else None}


def replay(obj, cfg):
    prog, script, style, text = cases.decode_case(obj)
    failures, info = judge(prog, script, style, cfg)
    return {'failures': [{'bucket': b, 'detail': d, 'case': obj}
                         for b, d in failures]}


def shrink(failure, cfg):
    prog, script, style, text = cases.decode_case(failure['case'])
    bucket = failure['bucket']

    def still(p):
        fs, _ = judge(p, script, style, cfg)
        return any(b == bucket for b, _ in fs)
    small = SH.shrink_program(prog, still, max_tests=60)
    fs, _ = judge(small, script, style, cfg)
    for b, d in fs:
        if b == bucket:
            return {'bucket': b, 'detail': d,
                    'case': cases.encode_case(small, script, style)}
    return failure
