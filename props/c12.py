"""C12 - Debugger stepping and breakpoints are transparent and stop correctly.

Histories: a generated program (procedures, loops, GOSUB, recursion) compiled
with -g is driven through qvm.dbg.Cmd by a drawn sequence of step / next /
stepi / nexti / continue / break <line> / delbr <line> commands.

Model over the free-run tick trace: the machine is deterministic, so the state
after any command is identified by the number of instructions executed, and
the expected stop is a pure function of the free run's (pc, frame depth,
device-call count) trace, the statement table and the active breakpoints."""
import contextlib
import io

from hypothesis import strategies as st

from qv import gen, render, run as X, cases, shrink as SH, decode as D
from qv import ref as RF
from qv import ast as A
from qv.runner import digest

ID = 'C12'
LEVEL = 'exploration'
RULE = ('Programs from the typed generator G (procedures, loops, GOSUB, '
        'recursion; no run-time errors favoured) compiled at O0 / O1 / O2 '
        'with -g, each driven by a drawn history of 1-25 debugger commands '
        'with breakpoint lines drawn from all lines of the program '
        '(half of them among lines still to be executed, half among all lines including lines without executable statements and one past the end); for programs '
        'whose free run is <= 60 instructions the thorough tier also '
        'enumerates all histories of length <= 3 over the command '
        'alphabet.  A second pass single-steps each program from start to '
        'end and compares the stops with the reference interpreter\'s '
        'statement execution order, and every stop of that traversal with '
        'the model.  Three fixed programs (single-line IF with and without '
        'ELSE, SELECT CASE with GOSUB, recursion / function / nested loops) '
        'get the same treatment plus all histories up to length 3 in both '
        'tiers.  Non-trivial: the history contains a '
        'stepping command issued inside a procedure or loop and a '
        'breakpoint that is hit.  Distinct by (text, history).')
ASSUMPTIONS = [
    'the statement ranges of the debug section are taken as data (C11 '
    'validates them); innermost-statement lookup, line-to-address mapping and '
    'the expected stop of every command are computed by the model, not by '
    'the debugger',
    'step / next / nexti may also stop at an active user breakpoint (the '
    'property is silent about that): both outcomes are admitted',
    'a drawn `continue` that is not the last command and finds no active '
    'breakpoint is issued as `next` (it would only end the program early; '
    'the run to the end after every history covers it)',
]
COMMANDS = ('step', 'next', 'stepi', 'nexti', 'continue', 'break', 'delbr')


def configure(tier, avoid):
    quick = tier == 'quick'
    p = gen.Params(max_stmts=12 if quick else 22, max_depth=2, expr_depth=2,
                   max_procs=3, min_procs=1, call_bias=0.15, edgy=0.0, error_rate=0.02, avoid=avoid,
                   features={'input': False})
    return {'examples': 200 if quick else 3500, 'params': p, 'tier': tier,
            'bounds': {'history': 25, 'exhaustive_history': 3},
            'tick_budget': 30000}


def setup_worker(cfg):
    X.set_parse_cache(True)


@st.composite
def histories(draw, params):
    prog, script, stats = draw(gen.programs(params))
    style = draw(gen.styles())
    level = draw(st.sampled_from([0, 0, 1, 2]))
    n = draw(st.sampled_from([12, 8, 5, 18, 25, 3, 2, 1]))
    cmds = []
    if not draw(st.booleans()):
        # common opening: breakpoint on a line still to be executed, run to it
        cmds = [('break', 2 * draw(st.integers(0, 39)) + 1),
                ('continue', None)]
    for _ in range(n):
        c = draw(st.sampled_from(['step'] * 4 + ['next'] * 4 + ['stepi'] +
                                 ['nexti'] * 2 + ['continue'] * 2 +
                                 ['break'] * 3 + ['delbr']))
        if c in ('break', 'delbr'):
            cmds.append((c, draw(st.integers(0, 79))))
        else:
            cmds.append((c, None))
    return prog, script, style, level, cmds, stats


def strategy(cfg):
    return histories(cfg['params'])


class Model:
    """Free-run trace + statement table of one module."""

    def __init__(self, module, script, cfg):
        self.module = module
        self.instrs = D.decode(module.code)
        self.at = {i.addr: i for i in self.instrs}
        self.pcs = []
        self.depths = []
        self.calls = []

        def before(cpu, n):
            self.pcs.append(cpu.pc)
            d = 0
            f = cpu.cur_frame
            while f is not None:
                d += 1
                f = f.prev_frame
            ins = self.at.get(cpu.pc)
            if ins is not None and ins.op == 'frame':
                d += 1      # the routine is entered, its frame is pending
            self.depths.append(d)
            self.calls.append(cpu.devices['terminal'].impl.n_calls)
        self.free = X.execute(module, X.Script(**script),
                              tick_budget=cfg['tick_budget'],
                              before_tick=before)
        self.T = self.free.ticks
        self.final_calls = self.free.impl.n_calls
        recs = [r for r in module.debug_info.stmts
                if r.end_offset > r.start_offset]
        self.recs = recs
        self._cache = {}

    def stmt_at(self, addr):
        """Innermost non-empty statement record containing addr (index)."""
        if addr in self._cache:
            return self._cache[addr]
        best = None
        for k, r in enumerate(self.recs):
            if r.start_offset <= addr < r.end_offset:
                if best is None or (r.end_offset - r.start_offset) < (
                        self.recs[best].end_offset -
                        self.recs[best].start_offset):
                    best = k
        self._cache[addr] = best
        return best

    def line_address(self, line):
        """Address a breakpoint on `line` stands for: first instruction of
        the first non-empty statement (in source order) at or after it."""
        cands = sorted(self.recs, key=lambda r: (r.source_start_offset,))
        for r in cands:
            if r.source_start_line >= line:
                return r.start_offset
        return None

    def pick_line(self, arg, k, nlines, set_lines=None):
        """Line a drawn break/delbr argument stands for: odd arguments
        choose among lines still to be executed (break) or lines that have a
        breakpoint (delbr), even ones any line up to one past the end."""
        n, odd = divmod(arg, 2)
        if odd:
            if set_lines is not None:
                pool = list(set_lines)
            else:
                pool = sorted({self.recs[s].source_start_line
                               for j in range(k + 1, self.T)
                               for s in [self.stmt_at(self.pcs[j])]
                               if s is not None})
            if pool:
                return pool[n % len(pool)]
        return 1 + n % (nlines + 1)

    def first_stop(self):
        for k in range(self.T):
            if self.stmt_at(self.pcs[k]) is not None:
                return k
        return self.T

    def pc_at(self, k):
        return self.pcs[k] if k < self.T else None

    def expected(self, cmd, k, bps):
        """Set of admissible tick indices after `cmd` issued at index k."""
        T = self.T
        if k >= T:
            return {k}
        first_bp = None
        for j in range(k + 1, T):
            if self.pcs[j] in bps:
                first_bp = j
                break
        if cmd == 'stepi':
            return {k + 1}
        if cmd == 'continue':
            return {first_bp if first_bp is not None else T}
        if cmd == 'nexti':
            j = self.over(k)
            out = {j}
            if first_bp is not None and first_bp < j:
                out.add(first_bp)
            return out
        s0 = self.stmt_at(self.pcs[k])
        if s0 is None and self.pcs[k] == 0:
            # at the entry call the debugger shows (and steps over) the
            # first statement; stopping at that statement is admitted too
            alt = self.expected(cmd, self.first_stop(), bps) \
                if self.first_stop() < T else {T}
            return alt | {self.first_stop()}
        if cmd == 'step':
            j = k + 1
            while j < T:
                s = self.stmt_at(self.pcs[j])
                if s is not None and s != s0:
                    break
                j += 1
            out = {j}
            if first_bp is not None and first_bp < j:
                out.add(first_bp)
            return out
        if cmd == 'next':
            j = k
            out = set()
            while j < T:
                j2 = self.over(j)
                if first_bp is not None and j < first_bp < j2:
                    out.add(first_bp)
                j = j2
                if j >= T:
                    break
                s = self.stmt_at(self.pcs[j])
                if s != s0:
                    break
            out.add(min(j, T))
            return out
        raise ValueError(cmd)

    def over(self, k):
        """Index after executing instruction k, stepping over a call."""
        ins = self.at.get(self.pcs[k])
        if ins is None or ins.op != 'call':
            return k + 1
        ret = self.pcs[k] + ins.size
        d = self.depths[k]
        for j in range(k + 1, self.T):
            if self.pcs[j] == ret and self.depths[j] == d:
                return j
        return self.T


def drive(module, script, cmds, model, cfg):
    """Runs the history through the real debugger -> failures."""
    from qvm.dbg import Cmd
    failures = []
    machine, impl, out = X.make_machine(module, X.Script(**script))
    cpu = machine.cpu
    ticks = [0]
    orig_tick = cpu.tick

    def counting_tick():
        ticks[0] += 1
        if ticks[0] > cfg['tick_budget'] + 1000:
            raise X.HangGuard()
        return orig_tick()
    cpu.tick = counting_tick
    info = {'stepped_inside': False, 'bp_hit': False, 'cmds': 0}
    sink = io.StringIO()
    try:
        with contextlib.redirect_stdout(sink), X.guard(X.RUN_TIMEOUT):
            dbg = Cmd(machine, module)
            k = ticks[0]
            # the start position is either address 0 (the entry call,
            # shown as the first statement) or the first statement itself
            if k > model.first_stop():
                failures.append(('start:ran_past_first_statement', {
                    'ticks': k, 'expected': model.first_stop()}))
                return failures, info
            bps = {}
            set_lines = []
            nlines = module.debug_info.source_code.count('\n') + 1
            for cmd, arg in cmds:
                info['cmds'] += 1
                if cmd == 'break':
                    line = model.pick_line(arg, ticks[0], nlines)
                    addr = model.line_address(line)
                    before = len(cpu.breakpoints)
                    dbg.onecmd('break %d' % line)
                    if addr is None:
                        if len(cpu.breakpoints) != before:
                            failures.append(('break:set_for_line_past_end',
                                             {'line': line}))
                        continue
                    if len(cpu.breakpoints) != before + 1:
                        failures.append(('break:not_set', {'line': line}))
                        continue
                    real = cpu.breakpoints[-1]
                    if real.start_addr != addr:
                        failures.append(('break:wrong_address', {
                            'line': line, 'address': real.start_addr,
                            'expected': addr}))
                        return failures, info
                    bps[addr] = bps.get(addr, 0) + 1
                    set_lines.append(line)
                    continue
                if cmd == 'delbr':
                    line = model.pick_line(arg, ticks[0], nlines, set_lines)
                    addr = model.line_address(line)
                    dbg.onecmd('delbr %d' % line)
                    if addr is not None and bps.get(addr):
                        bps[addr] -= 1
                        if not bps[addr]:
                            del bps[addr]
                    want_n = sum(bps.values())
                    if len(cpu.breakpoints) != want_n:
                        failures.append(('delbr:breakpoint_count', {
                            'line': line, 'have': len(cpu.breakpoints),
                            'expected': want_n}))
                        return failures, info
                    continue
                k = ticks[0]
                finished = k >= model.T
                if cmd == 'continue' and not bps and not finished and \
                        info['cmds'] < len(cmds):
                    # a continue without any breakpoint would just finish the
                    # program and turn the rest of the history into no-ops
                    # (the final run to the end covers that case): take a
                    # `next` instead
                    cmd = 'next'
                    info['remapped'] = info.get('remapped', 0) + 1
                want = model.expected(cmd, k, set(bps))
                if not finished and cmd in ('step', 'next') and \
                        model.depths[k] > 1:
                    info['stepped_inside'] = True
                dbg.onecmd(cmd)
                k2 = ticks[0]
                if k2 not in want:
                    failures.append(('%s:wrong_stop' % cmd, {
                        'at': k, 'stopped_at': k2,
                        'expected': sorted(want), 'T': model.T,
                        'pc': cpu.pc}))
                    return failures, info
                if k2 < model.T:
                    if cpu.pc != model.pcs[k2]:
                        failures.append(('%s:pc_differs_from_free_run' % cmd,
                                         {'at': k2}))
                        return failures, info
                    if impl.n_calls != model.calls[k2]:
                        failures.append((
                            '%s:device_calls_differ_from_free_run' % cmd,
                            {'at': k2}))
                        return failures, info
                    if cpu.pc in bps and k2 > k:
                        info['bp_hit'] = True
                    if cmd in ('step', 'next') and k2 == k:
                        failures.append(('%s:no_progress' % cmd, {'at': k}))
                    if cmd == 'next' and cpu.pc not in bps and \
                            model.depths[k2] > model.depths[k]:
                        failures.append(('next:stopped_inside_callee', {
                            'at': k, 'stopped_at': k2}))
            # run to the end: same trace and outcome as the free run
            for _ in range(3):
                if ticks[0] >= model.T:
                    break
                for bp in list(cpu.breakpoints):
                    cpu.del_breakpoint(bp)
                dbg.onecmd('continue')
    except X.HangGuard:
        return [('hang_or_runaway', {'ticks': ticks[0], 'T': model.T})], info
    except BaseException as e:
        if isinstance(e, (KeyboardInterrupt, MemoryError)):
            raise
        h = X.HostExc(e, 'debugger')
        return [('debugger_exception:' + h.bucket(),
                 {'tb': h.tb[-1200:]})], info
    if ticks[0] != model.T:
        failures.append(('final:instruction_count', {
            'ticks': ticks[0], 'free_run': model.T}))
    from qv.cases import first_diff
    d = first_diff(X.strip_print_items(impl.events),
                   X.strip_print_items(model.free.events))
    if d is not None:
        failures.append(('final:device_trace_differs', {
            'index': d[0], 'debugged': d[1], 'free': d[2]}))
    fo = X.outcome_of(cpu, module)
    if fo[:2] != model.free.outcome[:2]:
        failures.append(('final:outcome_differs', {
            'debugged': fo[:2], 'free': model.free.outcome[:2]}))
    return failures, info


def step_order(prog, script, rendered, module, model, cfg):
    """Repeated `step` stops in every simple statement executed, in order."""
    from qvm.dbg import Cmd
    it = RF.Interp(prog, script, rendered, trace_stmts=True)
    evs, out = it.run()
    if out[0] in ('unsupported', 'budget', 'input_exhausted'):
        return [], 'ref_' + out[0]
    want = []
    for s in it.stmt_trace:
        if isinstance(s, A.Dim) and not any(d.dims for d in s.decls):
            continue
        if isinstance(s, (A.Const, A.DefType, A.Data, A.Rem, A.LabelDef)):
            continue
        pos = rendered.pos.get(id(s)) or {}
        if pos.get('line'):
            want.append(pos['line'])
    machine, impl, sink = X.make_machine(module, X.Script(**script))
    cpu = machine.cpu
    stops = []
    tick_stops = []
    nticks = [0]
    orig_tick = cpu.tick

    def counting_tick():
        nticks[0] += 1
        return orig_tick()
    cpu.tick = counting_tick
    try:
        with contextlib.redirect_stdout(io.StringIO()), \
                X.guard(X.RUN_TIMEOUT):
            dbg = Cmd(machine, module)
            n = 0
            while not cpu.halted and n < 4000:
                s = model.stmt_at(cpu.pc)
                if s is not None:
                    stops.append(model.recs[s].source_start_line)
                tick_stops.append(nticks[0])
                dbg.onecmd('step')
                n += 1
            tick_stops.append(nticks[0])
    except X.HangGuard:
        return [('step_order:hang', {})], None
    except BaseException as e:
        if isinstance(e, (KeyboardInterrupt, MemoryError)):
            raise
        h = X.HostExc(e, 'debugger')
        return [('debugger_exception:' + h.bucket(), {'tb': h.tb[-900:]})], \
            None
    # the whole traversal, stop by stop, against the model (this sees a
    # missed statement also when it shares its line with the previous one)
    k = tick_stops[0] if tick_stops else 0
    for nxt in tick_stops[1:]:
        if k >= model.T:
            break
        adm = model.expected('step', k, set())
        if nxt not in adm:
            return [('step_order:traversal_stop_differs', {
                'at': k, 'stopped_at': nxt, 'expected': sorted(adm),
                'T': model.T})], None
        k = nxt
    # `want` must be a subsequence of `stops`
    i = 0
    for ln in stops:
        if i < len(want) and ln == want[i]:
            i += 1
    if i < len(want):
        return [('step_order:statement_not_stopped_in', {
            'missing_line': want[i], 'index': i, 'stops': stops[:40],
            'executed': want[:40]})], None
    return [], None


def judge(prog, script, style, level, cmds, cfg):
    rendered = render.render(prog, style)
    text = rendered.text
    info = {'accepted': False, 'text': text}
    m = X.compile_one(text, level, True)
    if m.kind != 'accepted':
        return [], info
    info['accepted'] = True
    model = Model(m.module, script, cfg)
    if model.free.outcome[0] in ('budget', 'input_exhausted', 'host_exc'):
        info['inconclusive'] = 'free_run_' + model.free.outcome[0]
        return [], info
    info['T'] = model.T
    info['calls'] = max(model.depths or [0]) > 1
    failures, dinfo = drive(m.module, script, cmds, model, cfg)
    info.update(dinfo)
    info['exhaustive'] = 0
    if cfg['tier'] == 'thorough' and not failures and \
            model.T <= cfg.get('exhaustive_T', 80):
        import itertools
        alpha = [('step', None), ('next', None), ('stepi', None),
                 ('nexti', None), ('continue', None), ('break', 1),
                 ('break', 3), ('delbr', 1)]
        for n in (1, 2, 3):
            for h in itertools.product(alpha, repeat=n):
                fs, _ = drive(m.module, script, list(h), model, cfg)
                info['exhaustive'] += 1
                if fs:
                    failures.extend(('exhaustive:' + b, dict(d, history=h))
                                    for b, d in fs)
                    break
            if failures:
                break
    if level == 0 and not failures:
        fs, inc = step_order(prog, script, rendered, m.module, model, cfg)
        failures.extend(fs)
        if inc:
            info['step_order'] = inc
    seen = {}
    for b, d in failures:
        seen.setdefault(b, dict(d, level=level))
    return list(seen.items()), info


def check(case, cfg):
    prog, script, style, level, cmds, stats = case
    failures, info = judge(prog, script, style, level, cmds, cfg)
    key = digest([info['text'], script, level, cmds])
    nontrivial = info['accepted'] and info.get('stepped_inside') and \
        info.get('bp_hit')
    cls = ['level:%d' % level]
    if info.get('stepped_inside'):
        cls.append('stepped_inside_procedure')
    if info.get('bp_hit'):
        cls.append('breakpoint_hit')
    if info.get('calls'):
        cls.append('program_calls_procedure')
    if info.get('accepted'):
        T = info.get('T', 0)
        cls.append('run_length:' + ('<20' if T < 20 else '<100' if T < 100
                                    else '>=100'))
        cls.append('commands_effective:%d' % min(10, info.get('cmds', 0)))
    if info.get('exhaustive'):
        cls.append('all_histories_up_to_3')
    if info.get('step_order'):
        cls.append('step_order:' + info['step_order'])
    fl = []
    if failures:
        enc = cases.encode_case(prog, script, style,
                                {'level': level, 'cmds': cmds})
        fl = [{'bucket': b, 'detail': d, 'case': enc} for b, d in failures]
    return {'key': key, 'nontrivial': bool(nontrivial), 'classes': cls,
            'failures': fl, 'inconclusive': info.get('inconclusive'),
            'extra_evals': info.get('exhaustive', 0),
            'sample': {'source': info['text'], 'level': level,
                       'history': cmds}
            if nontrivial and key[0] in '0123' else None}


def replay(obj, cfg):
    prog, script, style, text = cases.decode_case(obj)
    cmds = [tuple(c) for c in obj['cmds']]
    failures, info = judge(prog, script, style, obj['level'], cmds, cfg)
    return {'failures': [{'bucket': b, 'detail': d, 'case': obj}
                         for b, d in failures]}


def shrink(failure, cfg):
    obj = failure['case']
    prog, script, style, text = cases.decode_case(obj)
    cmds = [tuple(c) for c in obj['cmds']]
    level = obj['level']
    bucket = failure['bucket']

    def fails(p, cs):
        fs, _ = judge(p, script, style, level, cs, cfg)
        return any(b == bucket for b, _ in fs)
    # shorten the history first
    i = len(cmds) - 1
    budget = 40
    while i >= 0 and budget > 0:
        cand = cmds[:i] + cmds[i + 1:]
        budget -= 1
        if cand and fails(prog, cand):
            cmds = cand
        i -= 1
    small = SH.shrink_program(prog, lambda p: fails(p, cmds), max_tests=40)
    fs, _ = judge(small, script, style, level, cmds, cfg)
    for b, d in fs:
        if b == bucket:
            return {'bucket': b, 'detail': d, 'case': cases.encode_case(
                small, script, style, {'level': level, 'cmds': cmds})}
    return failure


# ---------------------------------------------------------------------------
# Fixed programs with the shapes stepping depends on (single-line IF with
# ELSE, SELECT CASE, GOSUB, nested and recursive calls): in both tiers each is
# single-stepped from start to end against R's statement order and driven
# through all histories of up to three commands.
def _n(v):
    return A.Num('%', v, str(v))


def _lv(name):
    return A.LV(name, [], [], name[-1])


def fixed_programs():
    pr = lambda *it: A.Print(list(it))
    p1 = A.Program([
        A.For(_lv('i%'), _n(1), _n(3), None, [
            A.IfLine(A.Bin('=', _lv('i%'), _n(1), '%'),
                     [pr(A.Str('a')), A.Assign(_lv('x%'), _n(1))],
                     [pr(A.Str('c')), A.Assign(_lv('x%'), _n(2))]),
            A.IfLine(A.Bin('>', _lv('i%'), _n(2), '%'), [pr(A.Str('t'))],
                     None),
            A.IfLine(A.Bin('=', _lv('i%'), _n(2), '%'), [pr(A.Str('b'))],
                     [pr(A.Str('e'))])]),
        pr(A.Str('done'))])
    p2 = A.Program([
        A.For(_lv('k%'), _n(1), _n(4), None, [
            A.Select(_lv('k%'), [
                ([('v', _n(1))], [pr(A.Str('one'))]),
                ([('v', _n(2)), ('v', _n(3))], [pr(A.Str('two')),
                                                A.Gosub('gs')]),
            ], [pr(A.Str('else'))])]),
        A.End(),
        A.LabelDef('gs'), pr(A.Str('in gosub')), A.Return()])
    p3 = A.Program([
        A.Assign(_lv('d%'), _n(0)),
        A.CallSub('rc', [_n(2)]),
        pr(A.FCall('fv%', [_n(3)], '%')),
        A.Do('loop_until', A.Bin('>', _lv('d%'), _n(1), '%'), [
            A.Assign(_lv('d%'), A.Bin('+', _lv('d%'), _n(1), '%')),
            A.While(A.Bin('<', _lv('w%'), _lv('d%'), '%'),
                    [A.Assign(_lv('w%'), A.Bin('+', _lv('w%'), _n(1),
                                               '%'))])]),
        A.Proc('sub', 'rc', [A.Param('n%', '%')], False, [
            A.If([(A.Bin('>', _lv('n%'), _n(0), '%'),
                   [A.CallSub('rc', [A.Bin('-', _lv('n%'), _n(1), '%')])])],
                 None),
            pr(A.Str('rc'), ';', _lv('n%'))]),
        A.Proc('function', 'fv%', [A.Param('m%', '%')], False, [
            A.IfLine(A.Bin('>', _lv('m%'), _n(2), '%'),
                     [A.RetAssign('fv%', A.Bin('*', _lv('m%'), _n(2), '%'),
                                  '%')],
                     [A.RetAssign('fv%', _n(0), '%')])], '%')])
    return [p1, p2, p3]


def items(cfg):
    return [(k, level) for k in range(3) for level in (0, 2)]


def check_item(item, cfg):
    k, level = item
    prog = fixed_programs()[k]
    cfg2 = dict(cfg, tier='thorough', exhaustive_T=600)
    cmds = [('step', None)] * 3 + [('next', None)] * 2
    failures, info = judge(prog, {}, render.PLAIN, level, cmds, cfg2)
    fl = []
    if failures:
        enc = cases.encode_case(prog, {}, render.PLAIN,
                                {'level': level, 'cmds': cmds})
        fl = [{'bucket': 'fixed:' + b, 'detail': d, 'case': enc}
              for b, d in failures]
    return {'key': digest([info['text'], level, 'fixed']),
            'nontrivial': bool(info.get('accepted')),
            'classes': ['fixed_program:%d' % k, 'level:%d' % level],
            'failures': fl, 'extra_evals': info.get('exhaustive', 0)}
