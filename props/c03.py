"""C03 - Accepted programs are type- and stack-safe on the virtual machine.

Oracle A (this module): a run-time monitor over the real CPU checks after
every instruction that no machine-level fault occurs, typed reads find cells
of their type, a cell never changes its type, control lands on instruction
boundaries inside the routine owning the frame, and (with -g) the operand
stack is back at the routine's base depth plus one entry per active GOSUB at
every statement start.  Oracle B (abstract interpretation of the emitted
code, all paths) is in qv/asmcheck.py and runs in the thorough tier."""
from hypothesis import strategies as st

from qv import gen, render, run as X, cases, shrink as SH, monitor as M
from qv.runner import digest

ID = 'C03'
LEVEL = 'exploration'
RULE = ('Programs from the typed generator G (bias: conditions of every '
        'numeric type in IF / WHILE / DO / LOOP / SELECT, mixed-type FOR, '
        'arguments of every type to every built-in and procedure), run with '
        'a drawn device script at O0, O2 and O1-g / O2-g under the safety '
        'monitor; each program with an IF is run a second time with every '
        'IF / ELSEIF / single-line IF condition negated, so that the '
        'branches skipped by the first run execute.  Non-trivial: the run '
        'executed >= 1 conversion instruction '
        'and >= 1 of {call with arguments, GOSUB, array access, device '
        'operation}.  Distinct by hash of (text, script).')
ASSUMPTIONS = [
    'the monitor reads QvmCpu.stack, cur_frame, globals_segment and pc '
    'between ticks; the instruction boundaries come from an own decoder '
    '(qv/decode.py)',
    'programs that execute ON ERROR / RESUME are judged by C10 (the depth '
    'clause is switched off once such an instruction executes)',
]
CONFIGS = ((0, False), (2, False), (1, True), (2, True))


def configure(tier, avoid):
    quick = tier == 'quick'
    p = gen.Params(max_stmts=14 if quick else 28, max_depth=2 if quick else 3,
                   expr_depth=3, max_procs=2, edgy=0.05, avoid=avoid, mixed_case_types=True,
                   features={'nonbool_cond': True})
    return {'examples': 400 if quick else 3000, 'params': p, 'tier': tier,
            'bounds': {'max_stmts': p.max_stmts,
                       'configs': [X.cfg_name(c) for c in CONFIGS]},
            'tick_budget': 80000}


def setup_worker(cfg):
    X.set_parse_cache(True)


def strategy(cfg):
    return st.tuples(gen.programs(cfg['params']), gen.styles())


def safety(text, script, cfg, configs=CONFIGS):
    failures = []
    info = {'accepted': False, 'convs': 0, 'features': set(), 'ticks': 0}
    sc = X.Script(**script)
    for c in configs:
        m = X.compile_one(text, *c)
        if m.kind != 'accepted':
            if m.kind == 'timeout':
                info['inconclusive'] = 'compile_timeout'
            continue
        info['accepted'] = True
        try:
            mon = M.SafetyMonitor(m.module)
        except Exception as e:
            failures.append(('undecodable_code:%s' % type(e).__name__,
                             {'config': X.cfg_name(c), 'msg': str(e)}))
            continue
        rr = X.execute(m.module, sc, tick_budget=cfg['tick_budget'],
                       before_tick=mon.before, on_tick=mon.after)
        info['ticks'] = max(info['ticks'], rr.ticks)
        if rr.outcome[0] in ('budget', 'input_exhausted'):
            info['inconclusive'] = rr.outcome[0]
        for kind, detail in mon.finish(rr):
            d = dict(detail)
            d['config'] = X.cfg_name(c)
            key = kind
            if 'op' in d and d['op']:
                key += '@' + str(d['op'])
            failures.append((key, d))
        info['convs'] = max(info['convs'], mon.convs)
        info['features'] |= mon.features
        if 'asmcheck' in cfg:
            from qv import asmcheck
            res = asmcheck.verify(m.module)
            for kind, detail in res.violations:
                failures.append(('static:' + kind, dict(
                    detail, config=X.cfg_name(c))))
            info.setdefault('static', []).append(res.status)
    seen = {}
    for b, d in failures:
        seen.setdefault(b, d)
    return list(seen.items()), info


from qv.variants import flipped   # noqa: E402


def check(case, cfg):
    (prog, script, stats), style = case
    text = render.render(prog, style).text
    failures, info = safety(text, script, cfg)
    fprog = flipped(prog) if not failures else None
    flip_failed = False
    if fprog is not None:
        ftext = render.render(fprog, style).text
        ffail, finfo = safety(ftext, script,
                              dict(cfg, tick_budget=20000))
        info['features'] |= finfo['features']
        info['features'].add('flipped_variant')
        if ffail:
            failures = [('flipped:' + b, d) for b, d in ffail]
            flip_failed = True
    key = digest([text, script])
    nontrivial = info['accepted'] and info['convs'] >= 1 and bool(
        info['features'] & {'call', 'gosub', 'array', 'io'})
    cls = sorted('exec:' + f for f in info['features'])
    if info['convs']:
        cls.append('exec:conv')
    for s_ in info.get('static', []):
        cls.append('static:' + s_)
    fl = []
    if failures:
        enc = cases.encode_case(fprog if flip_failed else prog, script,
                                style, {'flipped': flip_failed})
        fl = [{'bucket': b, 'detail': d, 'case': enc} for b, d in failures]
    return {'key': key, 'nontrivial': nontrivial, 'classes': cls,
            'failures': fl, 'inconclusive': info.get('inconclusive'),
            'sample': cases.sample_of(text, script) if nontrivial and
            key[0] in '01' else None}


def replay(obj, cfg):
    failures, info = safety(obj['text'], obj.get('script') or {}, cfg)
    pre = 'flipped:' if obj.get('flipped') else ''
    return {'failures': [{'bucket': pre + b, 'detail': d, 'case': obj}
                         for b, d in failures]}


def shrink(failure, cfg):
    prog, script, style, text = cases.decode_case(failure['case'])
    if prog is None:
        return failure
    bucket = failure['bucket']

    pre = 'flipped:' if failure['case'].get('flipped') else ''

    def still(p):
        fs, _ = safety(render.render(p, style).text, script, cfg)
        return any(pre + b == bucket for b, _ in fs)
    small = SH.shrink_program(prog, still, max_tests=60)
    fs, _ = safety(render.render(small, style).text, script, cfg)
    for b, d in fs:
        if pre + b == bucket:
            return {'bucket': pre + b, 'detail': d,
                    'case': cases.encode_case(
                        small, script, style,
                        {'flipped': bool(failure['case'].get('flipped'))})}
    return failure
