"""C19 - PRINT USING fields keep their width, rounding and overflow mark.

Formats and values reach a compiled driver through DATA / READ, so one
compilation serves a whole batch.  Oracle: a reference formatter written
from the property text."""
import itertools
from fractions import Fraction

from qv import run as X
from qv.runner import digest, derive_seed

ID = 'C19'
LEVEL = 'exploration'
RULE = ('Numeric fields: every shape [+] #{1..4} [with a comma] [. #{0..3}] '
        '[trailing + or -] (exhaustive) embedded in drawn literal text '
        '(letters, blanks, _-escaped characters), each with values at the '
        "field's rounding boundaries (x.5 in the last decimal, both "
        'neighbours), carries (9.995, 99.95), negatives, zero, values one '
        'digit too wide and much too wide; string fields & and ! with '
        'strings of length 0-12 (! only with non-empty strings); two-field '
        'formats (numeric + string + numeric) drawn; with and without a '
        'trailing separator.  Non-trivial: a numeric field with a decimal '
        'point or comma and a value other than 0.  Distinct by (format, '
        'values).')
ASSUMPTIONS = [
    'formats are well-formed for the property: number of fields = number of '
    'values, field kind matches value kind, no unpaired trailing _',
    'a value whose integer part is 0 may be shown with or without the '
    'leading zero (QBASIC drops it when needed to fit); a value within 1e-9 '
    'relative of a rounding tie may round either way',
]
TIE = Fraction(1, 10 ** 9)


class NumField:
    def __init__(self, lead_plus, int_digits, comma, decimals, trail):
        self.lead_plus = lead_plus
        self.int_digits = int_digits
        self.comma = comma
        self.decimals = decimals        # None: no decimal point
        self.trail = trail              # '' | '+' | '-'

    def text(self):
        s = '+' if self.lead_plus else ''
        if self.comma and self.int_digits >= 2:
            s += '#' * (self.int_digits - 1) + ',' + '#'
        elif self.comma:
            s += '#,'
        else:
            s += '#' * self.int_digits
        if self.decimals is not None:
            s += '.' + '#' * self.decimals
        s += self.trail
        return s


def all_fields():
    out = []
    for lp, nd, comma, dec, tr in itertools.product(
            (False, True), (1, 2, 3, 4), (False, True),
            (None, 0, 1, 2, 3), ('', '+', '-')):
        if lp and tr:
            continue
        out.append(NumField(lp, nd, comma, dec, tr))
    # no integer position at all: a leading sign directly before the point
    for dec in (1, 2, 3):
        out.append(NumField(True, 0, False, dec, ''))
    return out


def group(digits):
    out = ''
    while len(digits) > 3:
        out = ',' + digits[-3:] + out
        digits = digits[:-3]
    return digits + out


def expected_numeric(field, v):
    """Set of admissible outputs for value v (a float) in the field."""
    width = len(field.text())
    d = field.decimals or 0
    scaled = Fraction(abs(v)) * 10 ** d
    lo = scaled.numerator // scaled.denominator
    frac = scaled - lo
    if abs(frac - Fraction(1, 2)) <= TIE * max(scaled, 1):
        roundings = [lo, lo + 1]
    elif frac > Fraction(1, 2):
        roundings = [lo + 1]
    else:
        roundings = [lo]
    result = set()
    for r in roundings:
        ip, fp = divmod(r, 10 ** d)
        ips = str(ip)
        if field.comma:
            ips = group(ips)
        forms = []
        fps = ''
        if field.decimals is not None:
            fps = '.' + (str(fp).rjust(d, '0') if d else '')
        forms.append(ips + fps)
        if ip == 0 and field.decimals:
            forms.append(fps)            # leading zero dropped
        # a negative value that rounds to zero may keep or lose its sign
        for neg_ in ({True, False} if (v < 0 and r == 0) else {v < 0}):
            outs = set()
            for body in forms:
                if field.lead_plus:
                    s = ('-' if neg_ else '+') + body
                elif field.trail == '+':
                    s = body + ('-' if neg_ else '+')
                elif field.trail == '-':
                    s = body + ('-' if neg_ else ' ')
                else:
                    s = ('-' if neg_ else '') + body
                if len(s) <= width:
                    outs.add(s.rjust(width))
                else:
                    outs.add('%' + s)
            # "only a value that cannot fit is widened": if some admissible
            # rendering of this rounding fits, the widened ones are not
            # allowed
            fits = {o for o in outs if not o.startswith('%')}
            result |= fits or outs
    return result


def values_for(field, rng, extra=4):
    d = field.decimals or 0
    unit = 10.0 ** -d
    top = 10 ** field.int_digits
    vs = [0.0, 1.0, -1.0, 0.5, -0.5, 1.5 * unit, 2.5 * unit, 0.5 * unit,
          -2.5 * unit, 9.995, 99.95, 0.995, 9.5, 99.5, top - 1.0,
          top - 0.5 * unit, float(top), -float(top), top * 10.0 + 0.25,
          1234567.891, -1234.5, 0.05, 0.049999, 12.345, 1e-7, 7.0]
    # values just below a power of ten that round up to it, both signs
    for k in range(0, field.int_digits + 1):
        vs.append(10.0 ** k - 0.4 * unit)
        vs.append(10.0 ** k - 0.6 * unit)
    vs += [-x for x in vs if x > 0]
    for _ in range(extra):
        vs.append(round(rng.uniform(-top * 1.2, top * 1.2), rng.randint(0, 4)))
    return vs


LIT_CHARS = 'ab xyZ'


def lit_text(rng):
    n = rng.randint(0, 3)
    s = ''
    for _ in range(n):
        if rng.random() < 0.25:
            s += '_' + rng.choice('#.&!_+-,')
        else:
            s += rng.choice(LIT_CHARS)
    return s


def lit_plain(s):
    out = ''
    i = 0
    while i < len(s):
        if s[i] == '_':
            # (an underscore at the very end stands for itself)
            out += s[i + 1] if i + 1 < len(s) else '_'
            i += 2
        else:
            out += s[i]
            i += 1
    return out


def configure(tier, avoid):
    quick = tier == 'quick'
    return {'examples': 0, 'tier': tier, 'batch': 200,
            'bounds': {'fields': len(all_fields())},
            'tick_budget': 3000000}


def setup_worker(cfg):
    X.set_parse_cache(True)


def items(cfg):
    """Batches of cases.  case = (kind, format, values, trailing_sep,
    admissible outputs)"""
    import random
    rng = random.Random(derive_seed(ID, cfg.get('seed', 1), 0, 'items'))
    cases = []
    fields = all_fields()
    for f in fields:
        if cfg['tier'] == 'quick':
            vs = rng.sample(values_for(f, rng), 8)
        else:
            vs = values_for(f, rng, extra=120)
        for v in vs:
            pre, post = lit_text(rng), lit_text(rng)
            if post[:1] in '+-' or post[:2] in ('_+', '_-') and False:
                post = 'a' + post
            # literal text must not extend the field
            if post and post[0] in '#.,+-':
                post = ' ' + post
            if pre and pre[-1] in '#+-' and not pre.endswith('_' + pre[-1]):
                pre += ' '
            fmt = pre + f.text() + post
            outs = {lit_plain(pre) + o + lit_plain(post)
                    for o in expected_numeric(f, v)}
            cases.append(('num', fmt, [v], rng.random() < 0.2,
                          sorted(outs), f))
    for _ in range(60 if cfg['tier'] == 'quick' else 600):
        kind = rng.choice('&!')
        s = ''.join(rng.choice('abcXYZ 019') for _ in range(
            rng.randint(1 if kind == '!' else 0, 12)))
        pre, post = lit_text(rng), lit_text(rng)
        fmt = pre + kind + post
        out = lit_plain(pre) + (s if kind == '&' else s[0]) + lit_plain(post)
        cases.append(('str', fmt, [s], rng.random() < 0.2, [out], None))
    # the escape character at the very end of the format, and doubled
    for suffix in ('_', 'x_', '__', '_#_', ' _'):
        cases.append(('str', '&' + suffix, ['ab'], False,
                      ['ab' + lit_plain(suffix)], None))
        cases.append(('str', '_!!' + suffix, ['cd'], False,
                      ['!c' + lit_plain(suffix)], None))
        f = fields[len(suffix) % len(fields)]
        v = values_for(f, rng)[0]
        cases.append(('num', f.text() + ' ' + suffix, [v], False,
                      sorted({o + ' ' + lit_plain(suffix)
                              for o in expected_numeric(f, v)}), f))
    for _ in range(60 if cfg['tier'] == 'quick' else 600):
        f1, f2 = rng.choice(fields), rng.choice(fields)
        v1, v2 = rng.choice(values_for(f1, rng)), rng.choice(
            values_for(f2, rng))
        s = ''.join(rng.choice('abcXYZ') for _ in range(rng.randint(1, 6)))
        kind = rng.choice('&!')
        fmt = f1.text() + ' a' + kind + 'b ' + f2.text()
        outs = {o1 + ' a' + (s if kind == '&' else s[0]) + 'b ' + o2
                for o1 in expected_numeric(f1, v1)
                for o2 in expected_numeric(f2, v2)}
        cases.append(('mix', fmt, [v1, s, v2], rng.random() < 0.2,
                      sorted(outs), f1))
    out = []
    for kind in ('num', 'str', 'mix'):
        sel = [c for c in cases if c[0] == kind]
        for k in range(0, len(sel), cfg['batch']):
            out.append((kind, sel[k:k + cfg['batch']]))
    return out


def q(s):
    return '"%s"' % s


def driver(kind, batch):
    n = len(batch)
    var = {'num': 'x#', 'str': 's$', 'mix': 'x#; s$; y#'}[kind]
    rd = {'num': 'x#', 'str': 's$', 'mix': 'x#, s$, y#'}[kind]
    lines = ['FOR i& = 1 TO %d' % n,
             'READ f$, t%%, %s' % rd,
             'IF t% < 0 THEN',
             'PRINT USING f$; ' + var + ';',
             'ELSEIF t% > 0 THEN',
             'PRINT USING f$; ' + var + ',',
             'ELSE',
             'PRINT USING f$; ' + var,
             'END IF',
             'PRINT "|"',
             'NEXT']
    for c in batch:
        vals = ', '.join(q(v) if isinstance(v, str) else repr(float(v))
                         for v in c[2])
        lines.append('DATA %s, %d, %s' % (
            q(c[1]), 0 if not c[3] else (-1 if len(c[1]) % 2 else 1), vals))
    return '\n'.join(lines) + '\n'


def run_batch(kind, batch, cfg):
    failures = []
    text = driver(kind, batch)
    nt = []
    for cfg_ in ((0, False), (2, True)):
        m = X.compile_one(text, *cfg_)
        name = X.cfg_name(cfg_)
        if m.kind != 'accepted':
            failures.append(('driver_not_accepted', {'got': repr(m)}))
            continue
        r = X.execute(m.module, X.Script(), tick_budget=cfg['tick_budget'])
        prints = [e[1] for e in r.events if e[0] == 'print']
        # split the output at the "|" lines
        groups = []
        cur = []
        for p in prints:
            if p == '|\r\n':
                groups.append(cur)
                cur = []
            else:
                cur.append(p)
        if r.outcome[0] != 'end' or len(groups) != len(batch):
            k = len(groups)
            bad = batch[k] if k < len(batch) else None
            failures.append(('driver_stopped:%s' % '-'.join(
                map(str, r.outcome[:2])), {
                    'config': name, 'format': bad[1] if bad else None,
                    'values': bad[2] if bad else None,
                    'tb': r.outcome[2].tb[-600:] if r.outcome[0] == 'host_exc'
                    else r.stdout[-200:]}))
        for c, g in zip(batch, groups):
            got = ''.join(g)
            wants = [w + ('' if c[3] else '\r\n') for w in c[4]]
            if got not in wants:
                f = c[5]
                shape = 'str' if f is None else '%s%s%s%s' % (
                    '+' if f.lead_plus else '', 'c' if f.comma else '',
                    'd%s' % f.decimals, f.trail)
                failures.append(('using:%s:%s' % (kind, shape), {
                    'config': name, 'format': c[1], 'values': c[2],
                    'got': got, 'admissible': wants[:4]}))
            if cfg_ == (0, False) and c[5] is not None and (
                    c[5].decimals is not None or c[5].comma) and c[2][0] != 0:
                nt.append(digest([c[1], c[2]]))
    seen = {}
    for b, d in failures:
        seen.setdefault(b, d)
    return list(seen.items()), nt


def check_item(item, cfg):
    kind, batch = item
    failures, nt = run_batch(kind, batch, cfg)
    fl = [{'bucket': b, 'detail': d,
           'case': {'kind': kind, 'format': d.get('format'),
                    'values': d.get('values')}} for b, d in failures]
    return {'key': None, 'nontrivial': False, 'nontrivial_keys': nt,
            'class_counts': {'kind:' + kind: len(batch)},
            'extra_evals': len(batch) - 1, 'failures': fl,
            'sample': {'format': batch[0][1], 'values': batch[0][2],
                       'admissible_outputs': batch[0][4]}}


def replay(obj, cfg):
    """Replays one (format, values) case against the reference formatter."""
    kind = obj['kind']
    fmt, vals = obj['format'], obj['values']
    if fmt is None:
        return {'failures': []}
    outs = obj.get('admissible')
    if outs is None:
        # recompute for single numeric fields without literal text
        for f in all_fields():
            if f.text() == fmt:
                outs = sorted(expected_numeric(f, vals[0]))
                break
    if outs is None:
        return {'failures': []}
    failures, _ = run_batch(kind, [(kind, fmt, vals, False, outs, None)], cfg)
    return {'failures': [{'bucket': b, 'detail': d, 'case': obj}
                         for b, d in failures]}
