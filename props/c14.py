"""C14 - Spelling, spacing, comments and separators do not change the program.

Metamorphic: one AST rendered under two independently drawn styles (letter
case of keywords and identifiers, blanks, comments and empty lines, colons vs
new lines, LET, CALL form, NEXT variable, <> vs ><, label names vs line
numbers).  Both texts must be accepted or both rejected alike, and have
identical literal/data/global/code sections or, failing that, identical
behaviour."""
from hypothesis import strategies as st

from qv import gen, render, run as X, cases, shrink as SH, trace as T
from qv.runner import digest

ID = 'C14'
LEVEL = 'exploration'
RULE = ('One program from the typed generator G rendered twice under two '
        'independently drawn styles (a composition of all listed rewritings '
        'by construction); compiled at O0 and O2-g; sections 1-4 compared '
        'byte for byte, traces and outcomes compared when they differ.  '
        'Non-trivial: both accepted, the two texts differ and the two styles '
        'differ in >= 3 rewriting kinds.  Distinct by hash of both texts.  '
        'Plus a fixed catalogue of spelling pairs (DEFtype letter ranges in '
        'every case combination, line numbers 0 / 65529 and names of any '
        'case as targets of RESTORE / GOSUB / GOTO / ON ERROR, >< =< =>, LET '
        '/ CALL / NEXT var, keyword case, identifiers that begin with a '
        'keyword as first token of a line / after a colon / after LET or '
        'CALL, array parameters in every declaration form and letter case), '
        'each compared with the first spelling of its group.')
ASSUMPTIONS = ['the renderer only applies the rewritings the property lists '
               '(string literals, DATA text and comments are never altered)']
CONFIGS = ((0, False), (2, True))
KINDS = ('kwcase', 'idcase', 'spacing', 'comments', 'join', 'let', 'call_kw',
         'next_var', 'ne_alt', 'blank_lines', 'labels', 'end_space')


def configure(tier, avoid):
    quick = tier == 'quick'
    p = gen.Params(max_stmts=14 if quick else 28, max_depth=2, expr_depth=2,
                   max_procs=2, avoid=avoid, mixed_case_types=True)
    return {'examples': 400 if quick else 4000, 'params': p,
            'bounds': {'max_stmts': p.max_stmts,
                       'configs': [X.cfg_name(c) for c in CONFIGS]},
            'tick_budget': 60000}


def setup_worker(cfg):
    X.set_parse_cache(False)


def strategy(cfg):
    return st.tuples(gen.programs(cfg['params']), gen.styles(), gen.styles())


def compare_texts(t1, t2, script, cfg):
    failures = []
    info = {'accepted': False, 'identical': 0, 'behavioural': 0}
    sc = X.Script(**script)
    for c in CONFIGS:
        a = X.compile_one(t1, *c)
        b = X.compile_one(t2, *c)
        name = X.cfg_name(c)
        if 'timeout' in (a.kind, b.kind):
            info['inconclusive'] = 'compile_timeout'
            continue
        if a.key() != b.key():
            failures.append(('accept:%s/%s' % (_k(a), _k(b)),
                             {'config': name, 'a': repr(a), 'b': repr(b)}))
            continue
        if a.kind != 'accepted':
            continue
        info['accepted'] = True
        if all(a.sections.get(s) == b.sections.get(s) for s in (1, 2, 3, 4)):
            info['identical'] += 1
            continue
        ra = X.execute(a.module, sc, tick_budget=cfg['tick_budget'])
        rb = X.execute(b.module, sc, tick_budget=cfg['tick_budget'])
        if ra.outcome[0] in ('budget', 'input_exhausted'):
            info['inconclusive'] = ra.outcome[0]
            continue
        d = T.diff(T.normalise(ra.events), T.normalise(rb.events))
        if d is not None:
            failures.append(('trace:%s' % ((d[1] or d[2])[0]), {
                'config': name, 'index': d[0], 'a': d[1], 'b': d[2]}))
        elif cases.outcome_key(ra.outcome) != cases.outcome_key(rb.outcome):
            failures.append(('outcome', {'config': name,
                                         'a': ra.outcome[:2],
                                         'b': rb.outcome[:2]}))
        else:
            info['behavioural'] += 1
            differing = [s for s in (1, 2, 3, 4)
                         if a.sections.get(s) != b.sections.get(s)]
            info['sections_differ'] = differing
    seen = {}
    for b_, d in failures:
        seen.setdefault(b_, d)
    return list(seen.items()), info


def _k(c):
    return c.key()[-1] if c.kind != 'accepted' else 'accepted'


def check(case, cfg):
    (prog, script, stats), s1, s2 = case
    t1 = render.render(prog, s1).text
    t2 = render.render(prog, s2).text
    failures, info = compare_texts(t1, t2, script, cfg)
    ndiff = sum(1 for k in KINDS if getattr(s1, k) != getattr(s2, k))
    nontrivial = info['accepted'] and t1 != t2 and ndiff >= 3
    cls = []
    if info['accepted']:
        cls.append('accepted')
    if info['identical']:
        cls.append('sections_identical')
    if info['behavioural']:
        cls.append('only_behaviour_equal:sections=%s' %
                   info.get('sections_differ'))
    cls.append('style_kinds_differ:%d' % min(ndiff, 9))
    fl = []
    if failures:
        enc = cases.encode_case(prog, script, s1, {'style2': s2.to_json(),
                                                   'text2': t2})
        fl = [{'bucket': b, 'detail': d, 'case': enc} for b, d in failures]
    return {'key': digest([t1, t2, script]), 'nontrivial': nontrivial,
            'classes': cls, 'failures': fl,
            'inconclusive': info.get('inconclusive'),
            'sample': {'text_a': t1, 'text_b': t2} if nontrivial else None}


def replay(obj, cfg):
    failures, info = compare_texts(obj['text'], obj['text2'],
                                   obj.get('script') or {}, cfg)
    return {'failures': [{'bucket': b, 'detail': d, 'case': obj}
                         for b, d in failures]}


def shrink(failure, cfg):
    obj = failure['case']
    prog, script, s1, _ = cases.decode_case(obj)
    if prog is None:
        return failure
    s2 = render.Style.from_json(obj['style2'])
    bucket = failure['bucket']

    def still(p):
        fs, _ = compare_texts(render.render(p, s1).text,
                              render.render(p, s2).text, script, cfg)
        return any(b == bucket for b, _ in fs)
    small = SH.shrink_program(prog, still, max_tests=60)
    t1 = render.render(small, s1).text
    t2 = render.render(small, s2).text
    fs, _ = compare_texts(t1, t2, script, cfg)
    for b, d in fs:
        if b == bucket:
            return {'bucket': b, 'detail': d, 'case': cases.encode_case(
                small, script, s1, {'style2': s2.to_json(), 'text2': t2})}
    return failure


# ---------------------------------------------------------------------------
# Catalogue of spelling pairs: one hand-written program per construct whose
# spelling the property allows to vary, in all spellings of that construct.
# Every spelling must behave like the first one of its group.
def _case_variants(word_pairs, template):
    out = []
    import itertools
    for combo in itertools.product(*word_pairs):
        out.append(template.format(*combo))
    return out


def spelling_groups():
    groups = []
    # DEFtype letter ranges in every letter-case combination
    for kw, val in (('DEFINT', '7 / 2'), ('DEFLNG', '7 / 2'),
                    ('DEFDBL', '1 / 3'), ('DEFSNG', '1 / 3')):
        groups.append(('deftype_range_case:' + kw, _case_variants(
            [('i', 'I'), ('n', 'N')],
            kw + ' {0}-{1}\nk = ' + val + ': x = ' + val + ': a = ' + val +
            ': m# = k: PRINT k; x; a; m#\n')))
    groups.append(('deftype_range_case:DEFSTR', _case_variants(
        [('s', 'S'), ('u', 'U')],
        'DEFSTR {0}-{1}\nt = "a": u = t + "b": PRINT t; u; LEN(u)\n')))
    groups.append(('deftype_two_ranges_case', _case_variants(
        [('a', 'A'), ('c', 'C'), ('x', 'X'), ('z', 'Z')],
        'DEFINT {0}-{1}, {2}-{3}\nb = 2.6: y = 2.6: m = 2.6: PRINT b; y; m\n'
    )))
    # line numbers (incl. 0) and names as targets of every label user
    body = ('DATA 1,2\n{d} DATA 3,4\nREAD a: RESTORE {r}: READ b: PRINT a; b\n'
            'GOSUB {r2}: GOTO {r3}\nPRINT "skipped"\n{d3} PRINT "end": END\n'
            '{d2} PRINT "sub": RETURN\n')
    variants = []
    for d, d2, d3 in (('5', '7', '9'), ('0', '7', '9'), ('5', '0', '9'),
                      ('5', '7', '0'), ('aa:', 'bb:', 'cc:'),
                      ('Aa:', 'bB:', 'CC:'), ('65529', '1', '2')):
        ref = [x.rstrip(':') for x in (d, d2, d3)]
        variants.append(body.format(d=d, d2=d2, d3=d3, r=ref[0], r2=ref[1],
                                    r3=ref[2]))
    groups.append(('label_spelling', variants))
    body = ('ON ERROR GOTO {r}\nx% = 1\ny% = 1 \\ (x% - 1)\nPRINT "after"\n'
            'END\n{d} PRINT "handler"; ERR\nRESUME NEXT\n')
    groups.append(('error_handler_label_spelling', [
        body.format(d=d, r=d.rstrip(':')) for d in ('10', 'h:', 'H:', '65000',
                                                    'hAnDlEr:')]))
    # operators and keywords with alternative spellings
    groups.append(('relational_spelling', [
        'a% = 1: b% = 2\nPRINT a% {0} b%; a% {1} b%; a% {2} b%\n'.format(*t)
        for t in (('<>', '<=', '>='), ('><', '=<', '=>'),
                  ('<>', '=<', '>='), ('><', '<=', '=>'))]))
    groups.append(('let_call_next_spelling', [
        'x = 1\nFOR i = 1 TO 2\nx = x + i\nNEXT\ns x\nPRINT x\n'
        'SUB s (v)\nv = v * 2\nEND SUB\n',
        'LET x = 1\nFOR i = 1 TO 2\nLET x = x + i\nNEXT i\nCALL s(x)\n'
        'PRINT x\nSUB s (v)\nLET v = v * 2\nEND SUB\n',
        'let X = 1: for I = 1 to 2: let x = X + i: next I: call S(X)\n'
        'print X\nsub S (V)\nv = V * 2\nend sub\n',
        "x = 1 ' c\n\nFOR i = 1 TO 2 ' c\n   x = x + i\n\nNEXT\n s x\n"
        "PRINT x\n\nSUB s (v)\n' only a comment\nv = v * 2\nEND SUB\n"]))
    # identifiers that merely begin with a keyword, as the first token of a
    # line, after a colon, and after LET / CALL; as variables, SUB names and
    # labels
    for k in ('rem', 'end', 'for', 'if', 'to', 'next', 'or', 'and', 'not',
              'mod', 'let', 'dim', 'call', 'sub', 'as', 'then', 'else',
              'goto', 'data', 'print', 'input', 'do', 'loop', 'case', 'on',
              'read', 'step', 'type', 'def', 'wend', 'exit', 'const'):
        v = k + 'ainder'
        groups.append(('keyword_prefixed_name:' + k, [
            'LET {0} = 5: LET zq = {0} + 1: PRINT {0}; zq\nCALL {0}s(2)\n'
            'GOTO {0}lab\nPRINT "skipped"\n{0}lab: PRINT "at label"\nEND\n'
            'SUB {0}s (p)\nPRINT "in sub"; p\nEND SUB\n'.format(v),
            '{0} = 5\nzq = {0} + 1\nPRINT {0}; zq\n{0}s 2\n'
            'GOTO {0}lab\nPRINT "skipped"\n{0}lab:\nPRINT "at label"\nEND\n'
            'SUB {0}s (p)\nPRINT "in sub"; p\nEND SUB\n'.format(v),
            'zq = 0: {0} = 5: zq = {0} + 1: PRINT {0}; zq: {0}s 2\n'
            'GOTO lb7\nPRINT "skipped"\nlb7: PRINT "at label"\nEND\n'
            'SUB {0}s (p)\nPRINT "in sub"; p\nEND SUB\n'.format(v),
            '{1} = 5\nzq = {0} + 1\nPRINT {1}; zq\n{1}S 2\n'
            'GOTO {1}LAB\nPRINT "skipped"\n{0}lab:\nPRINT "at label"\nEND\n'
            'SUB {0}s (p)\nPRINT "in sub"; p\nEND SUB\n'.format(
                v, v.upper())]))
    # array parameters in every declaration form and letter case
    for form in ('{0}()', '{0}!()', '{0}() AS SINGLE'):
        groups.append(('array_parameter_case:' + form, [
            'DIM a(2)\na(1) = 7\nCALL total(a(), 2)\n'
            'SUB total (%s, n&)\nPRINT {1}(1); n&\nEND SUB\n'
            .replace('%s', form).format(nm, ref)
            for nm, ref in (('values', 'values'), ('Values', 'values'),
                            ('VALUES', 'Values'), ('values', 'VALUES'))]))
    groups.append(('keyword_case', [
        t for t in (
            'DIM a(3) AS INTEGER\nSELECT CASE 2\nCASE 1 TO 3\na(1) = 5\n'
            'CASE ELSE\na(1) = 6\nEND SELECT\nDO WHILE a(1) > 3\n'
            'a(1) = a(1) - 1\nLOOP\nIF a(1) = 3 THEN PRINT "t" ELSE '
            'PRINT "f"\nPRINT UCASE$("x"); a(1) MOD 2; NOT a(1)\n',)
        for t in (t, t.lower(), t.swapcase(),
                  ''.join(c.upper() if i % 2 else c.lower()
                          for i, c in enumerate(t)))]))
    return groups


def items(cfg):
    out = []
    for name, variants in spelling_groups():
        for k, v in enumerate(variants[1:], 1):
            out.append((name, k, variants[0], v))
    return out


def check_item(item, cfg):
    name, k, t1, t2 = item
    if 'keyword_case' in name:
        # string literals must stay as they are: re-insert them
        import re
        lits = re.findall(r'"[^"]*"', t1)
        it = iter(lits)
        t2 = re.sub(r'"[^"]*"', lambda m: next(it), t2)
    failures, info = compare_texts(t1, t2, {}, cfg)
    fl = [{'bucket': 'catalogue:%s:%s' % (name, b), 'detail': d,
           'case': {'text': t1, 'text2': t2, 'script': {}}}
          for b, d in failures]
    return {'key': digest([t1, t2]), 'nontrivial': info['accepted'],
            'classes': ['catalogue:' + name], 'failures': fl,
            'inconclusive': info.get('inconclusive'),
            'sample': {'text_a': t1, 'text_b': t2} if k == 1 else None}
