"""C04 - Variables, array elements and record fields never overlap or leak.

Dedicated generator: draw a declaration set, enumerate all its scalar
*locations*, then draw an interleaving of operations on them - write a fresh
sentinel, read (possibly never written), copy one location to another, call
procedures passing locations by reference / by value / as whole arrays,
recurse with locals, bump STATIC counters - and finally dump every location.
Oracle: the reference interpreter R acts as the shadow store (one cell per
location, defaults 0 / ""); every printed value must agree."""
from hypothesis import strategies as st

from qv import ast as A
from qv import gen as G
from qv import render, run as X, cases, shrink as SH
from qv.runner import digest
from props import c01

ID = 'C04'
LEVEL = 'exploration'
RULE = ('Declaration sets (<= 8 declarations: scalars of every type, arrays '
        'of rank 1-3 with arbitrary lower bounds and extents <= 4, static '
        'and run-time sized, records, nested records (nested part not '
        'first), arrays of records; module level, SHARED, procedure locals, '
        'STATIC, parameters) with all their locations enumerated; a drawn '
        'sequence of <= 60 operations: write sentinel / read / copy '
        'location to location / call with by-reference, by-value, '
        'whole-array and record arguments / recursion with locals / STATIC '
        'counter; then a dump of every location.  Compiled at O0 and O2-g '
        '(quick) or all six configurations (thorough); all printed values '
        'compared with the shadow store kept by the reference interpreter. '
        'Non-trivial: >= 2 aggregate declarations in one scope and >= 1 '
        'write-neighbour-then-read pair.  Distinct by (text).')
ASSUMPTIONS = c01.ASSUMPTIONS
SCALARS = '%&!#$'


class LGen:
    def __init__(self, draw):
        self.draw = draw
        self.names = G._base_names()
        self.used = set()
        self.types = {}
        self.sent = 0
        self.stats = {}

    def i(self, lo, hi):
        return self.draw(st.integers(lo, hi))

    def chance(self, p):
        return self.draw(st.floats(0, 1, allow_nan=False)) < p

    def pick(self, seq):
        seq = list(seq)
        return seq[self.i(0, len(seq) - 1)]

    def note(self, k):
        self.stats[k] = self.stats.get(k, 0) + 1

    def base(self):
        while True:
            n = self.names[self.i(0, len(self.names) - 1)]
            if n not in self.used:
                self.used.add(n)
                return n

    def sentinel(self, t):
        self.sent += 1
        n = self.sent
        if t == '%':
            return A.Num('%', 100 + n, str(100 + n))
        if t == '&':
            v = 100000 + n
            return A.Num('&', v, str(v))
        if t == '!':
            v = n + 0.5
            return A.Num('!', v, G.single_text(v))
        if t == '#':
            v = n + 0.25
            return A.Num('#', v, G.double_text(v))
        return A.Str('s%d' % n)

    # ------------------------------------------------------------- types
    def make_types(self):
        out = []
        for k in range(self.i(0, 3)):
            name = self.base()
            fields = []
            nf = self.i(1, 4)
            for j in range(nf):
                prev = [t for t in self.types]
                if prev and j > 0 and self.chance(0.4):
                    ft = 'T:' + self.pick(prev)
                    self.note('nested_record')
                else:
                    ft = self.pick(SCALARS)
                fields.append((self.base(), ft))
            self.types[name] = fields
            out.append(A.TypeDef(name, fields))
        return out

    def leaves(self, t, prefix=()):
        if not A.is_rec(t):
            return [(prefix, t)]
        out = []
        for f, ft in self.types[t[2:]]:
            out.extend(self.leaves(ft, prefix + (f,)))
        return out

    # ------------------------------------------------------ declarations
    def declare(self, scope_kind, allow_dynamic=True):
        """-> (statements, variable descriptors).  descriptor = dict(name,
        t, dims, kind)"""
        stmts = []
        vars_ = []
        n = self.i(1, 4)
        for _ in range(n):
            rec = self.types and self.chance(0.45)
            t = 'T:' + self.pick(list(self.types)) if rec else \
                self.pick(SCALARS)
            arr = self.chance(0.5)
            dims = None
            dexpr = None
            pre = []
            if arr:
                rank = self.pick([1, 1, 2, 2, 3])
                dims = []
                for _k in range(rank):
                    lo = self.i(-2, 2)
                    ext = self.i(1, 3 if rank < 3 else 2)
                    dims.append((lo, lo + ext - 1))
                # (re-executing the DIM of a run-time sized array that
                # persists - SUB ... STATIC - is an error in QBASIC)
                dynamic = scope_kind != 'shared' and allow_dynamic and \
                    self.chance(0.3)
                dexpr = []
                for lo, hi in dims:
                    if dynamic:
                        bn = self.base() + '%'
                        pre.append(A.Assign(A.LV(bn, [], [], '%'),
                                            self.ic(hi)))
                        hi_e = A.LV(bn, [], [], '%')
                    else:
                        hi_e = self.ic(hi)
                    dexpr.append((None if lo == 0 and self.chance(0.5)
                                  else self.ic(lo), hi_e))
                self.note('array_rank%d' % rank)
                if dynamic:
                    self.note('dynamic_array')
                if rec:
                    self.note('array_of_records')
            as_clause = A.is_rec(t) or self.chance(0.5)
            b = self.base()
            name = b if as_clause else b + t
            if as_clause and not A.is_rec(t):
                pass
            kind = {'main': 'dim', 'shared': 'shared', 'local': 'dim',
                    'static': 'static'}[scope_kind]
            stmts.extend(pre)
            stmts.append(A.Dim(kind, [A.Decl(name, t, dexpr, as_clause)]))
            vars_.append({'name': name, 't': t, 'dims': dims,
                          'kind': scope_kind})
        return stmts, vars_

    def ic(self, v):
        if v < 0:
            return A.Un('neg', A.Num('%', -v, str(-v)), '%')
        return A.Num('%', v, str(v))

    def locations(self, vars_):
        """All scalar locations of a list of variables: (var, idx, path, t)"""
        out = []
        for v in vars_:
            idxs = [()]
            if v['dims']:
                idxs = [()]
                for lo, hi in v['dims']:
                    idxs = [p + (k,) for p in idxs for k in range(lo, hi + 1)]
            for ix in idxs:
                for path, lt in self.leaves(v['t']):
                    out.append((v, ix, path, lt))
        return out

    def lv(self, loc):
        v, ix, path, t = loc
        return A.LV(v['name'], [self.ic(k) for k in ix], list(path), t)

    def dump(self, vars_):
        """Statements printing every location (arrays through FOR loops)."""
        out = []
        for v in vars_:
            loopvars = []
            if v['dims']:
                for _ in v['dims']:
                    loopvars.append(self.base() + '%')
            idx = [A.LV(n, [], [], '%') for n in loopvars]
            prints = []
            for path, lt in self.leaves(v['t']):
                prints.append(A.Print([A.LV(v['name'], idx, list(path), lt),
                                       ';']))
            body = prints
            if v['dims']:
                for n, (lo, hi) in reversed(list(zip(loopvars, v['dims']))):
                    body = [A.For(A.LV(n, [], [], '%'), self.ic(lo),
                                  self.ic(hi), None, body)]
            out.extend(body)
            out.append(A.Print([]))
        return out

    # ---------------------------------------------------------- program
    def program(self):
        top = list(self.make_types())
        sh_stmts, sh_vars = ([], [])
        if self.chance(0.6):
            sh_stmts, sh_vars = self.declare('shared')
        top.extend(sh_stmts)
        m_stmts, m_vars = self.declare('main')
        top.extend(m_stmts)
        main_vars = sh_vars + m_vars
        locs = self.locations(main_vars)
        if len([v for v in main_vars if v['dims'] or A.is_rec(v['t'])]) >= 2:
            self.note('two_aggregates')
        procs = []
        # a procedure taking by-reference parameters of some location types
        sub = None
        if locs and self.chance(0.8):
            sub = self.make_sub(locs, sh_vars, main_vars)
            procs.append(sub['proc'])
        rec = None
        if self.chance(0.5):
            rec = self.make_recursive()
            procs.append(rec['proc'])
        ops = []
        written = set()
        nops = self.i(4, 30)
        for _ in range(nops):
            if not locs:
                break
            r = self.i(0, 9)
            loc = self.pick(locs)
            if r <= 3:
                ops.append(A.Assign(self.lv(loc), self.sentinel(loc[3])))
                self.note('write')
                # a write next to an earlier-written neighbour
                written.add(self.lockey(loc))
            elif r <= 5:
                ops.append(A.Print([self.lv(loc)]))
                self.note('read')
                if self.lockey(loc) not in written:
                    self.note('read_unwritten')
                elif len(written) >= 2:
                    self.note('write_neighbour_then_read')
            elif r == 6:
                same = [l for l in locs if l[3] == loc[3] and
                        self.lockey(l) != self.lockey(loc)]
                if same:
                    src = self.pick(same)
                    ops.append(A.Assign(self.lv(loc), self.lv(src)))
                    written.add(self.lockey(loc))
                    self.note('copy')
            elif r <= 8 and sub is not None:
                call = self.call_sub(sub, locs)
                if call is not None:
                    ops.append(call)
                    self.note('call')
            elif rec is not None:
                ops.append(A.CallSub(rec['proc'].name,
                                     [self.ic(self.i(0, 3))]))
                self.note('recursion')
        top.extend(ops)
        top.extend(self.dump(main_vars))
        top.append(A.End())
        top.extend(procs)
        return A.Program(top)

    @staticmethod
    def lockey(loc):
        return (loc[0]['name'], loc[1], loc[2])

    def make_sub(self, locs, sh_vars, main_vars):
        """SUB with parameters mirroring drawn locations; writes sentinels to
        them, to locals, a STATIC and the SHARED variables."""
        params = []
        kinds = []
        for _ in range(self.i(1, 4)):
            loc = self.pick(locs)
            whole = self.chance(0.25)
            recs = [v for v in main_vars if A.is_rec(v['t'])]
            arrs = [v for v in main_vars if v['dims'] and
                    len(v['dims']) >= 1]
            if whole and arrs and self.chance(0.5):
                v = self.pick(arrs)
                pn = self.base()
                params.append(A.Param(pn, v['t'], True, True))
                kinds.append(('array', v))
                self.note('array_param')
            elif whole and recs and not [v for v in recs if v['dims']] or (
                    whole and recs):
                v = self.pick(recs)
                pn = self.base()
                params.append(A.Param(pn, v['t'], False, True))
                kinds.append(('record', v))
                self.note('record_param')
            else:
                t = loc[3]
                pb = self.base()
                as_clause = self.chance(0.5)
                params.append(A.Param(pb if as_clause else pb + t, t, False,
                                      as_clause))
                kinds.append(('scalar', t))
        name = self.base()
        body = []
        static = self.chance(0.3)
        # locals (fresh per activation) and a STATIC counter
        loc_stmts, loc_vars = ([], [])
        if self.chance(0.7):
            loc_stmts, loc_vars = self.declare('local',
                                               allow_dynamic=not static)
        body.extend(loc_stmts)
        cnt = self.base() + '%'
        body.append(A.Dim('static', [A.Decl(cnt, '%', None, False)]))
        clv = A.LV(cnt, [], [], '%')
        body.append(A.Assign(clv, A.Bin('+', clv, A.Num('%', 1, '1'), '%')))
        body.append(A.Print([A.Str('cnt'), ';', clv]))
        # locals must read as defaults on every activation
        for l in self.locations(loc_vars)[:6]:
            body.append(A.Print([self.lv(l), ';']))
        body.append(A.Print([]))
        for l in self.locations(loc_vars)[:6]:
            if self.chance(0.6):
                body.append(A.Assign(self.lv(l), self.sentinel(l[3])))
        for prm, k in zip(params, kinds):
            if k[0] == 'scalar':
                plv = A.LV(prm.name, [], [], prm.t)
                body.append(A.Print([plv]))
                if self.chance(0.7):
                    body.append(A.Assign(plv, self.sentinel(prm.t)))
            elif k[0] == 'array':
                v = k[1]
                if len(v['dims']) == 1 and not A.is_rec(v['t']):
                    e = A.LV(prm.name, [A.BCall(
                        self.pick(['LBOUND', 'UBOUND']),
                        [A.LV(prm.name, [], [], None)], '&')], [], v['t'])
                    body.append(A.Print([e]))
                    body.append(A.Assign(e, self.sentinel(v['t'])))
                else:
                    idx = [self.ic(self.i(lo, hi)) for lo, hi in v['dims']]
                    lv_ = self.leaves(v['t'])
                    path, lt = self.pick(lv_)
                    e = A.LV(prm.name, idx, list(path), lt)
                    body.append(A.Print([e]))
                    body.append(A.Assign(e, self.sentinel(lt)))
            else:
                v = k[1]
                path, lt = self.pick(self.leaves(v['t']))
                e = A.LV(prm.name, [], list(path), lt)
                body.append(A.Print([e]))
                body.append(A.Assign(e, self.sentinel(lt)))
        for l in self.locations(sh_vars)[:4]:
            if self.chance(0.5):
                body.append(A.Print([self.lv(l)]))
                body.append(A.Assign(self.lv(l), self.sentinel(l[3])))
                self.note('shared_in_proc')
        return {'proc': A.Proc('sub', name, params, static, body),
                'kinds': kinds, 'params': params}

    def call_sub(self, sub, locs):
        args = []
        for prm, k in zip(sub['params'], sub['kinds']):
            if k[0] == 'array':
                args.append(A.ArrPass(k[1]['name'], k[1]['t']))
            elif k[0] == 'record':
                v = k[1]
                idx = [self.ic(self.i(lo, hi)) for lo, hi in (v['dims'] or [])]
                args.append(A.LV(v['name'], idx, [], v['t']))
            else:
                same = [l for l in locs if l[3] == k[1]]
                r = self.i(0, 9)
                if same and r <= 5:
                    args.append(self.lv(self.pick(same)))      # by reference
                    self.note('byref')
                elif same and r <= 7:
                    args.append(A.Paren(self.lv(self.pick(same))))
                    self.note('byval')
                else:
                    args.append(self.sentinel(k[1]))
        return A.CallSub(sub['proc'].name, args)

    def make_recursive(self):
        name = self.base()
        n = self.base() + '%'
        x = self.base() + self.pick('%&!#')
        xt = x[-1]
        nlv = A.LV(n, [], [], '%')
        xlv = A.LV(x, [], [], xt)
        arr = self.base()
        body = [
            A.Print([xlv, ';']),              # fresh local: default
            A.Assign(xlv, A.Bin('+', A.Bin('*', nlv, A.Num('%', 10, '10'),
                                           '%'),
                                A.Num('%', 1, '1'), '%')),
            A.Dim('dim', [A.Decl(arr, '&', [(None, A.Num('%', 2, '2'))],
                                 True)]),
            A.Print([A.LV(arr, [A.Num('%', 1, '1')], [], '&'), ';']),
            A.Assign(A.LV(arr, [A.Num('%', 1, '1')], [], '&'),
                     A.Bin('+', nlv, A.Num('&', 100000, '100000'), '&')),
            A.If([(A.Bin('>', nlv, A.Num('%', 0, '0'), '%'),
                   [A.CallSub(name, [A.Bin('-', nlv, A.Num('%', 1, '1'),
                                           '%')])])], None),
            A.Print([xlv, ';', A.LV(arr, [A.Num('%', 1, '1')], [], '&')]),
        ]
        return {'proc': A.Proc('sub', name, [A.Param(n, '%')], False, body)}


@st.composite
def layout_programs(draw):
    g = LGen(draw)
    prog = g.program()
    return prog, g.stats


def configure(tier, avoid):
    quick = tier == 'quick'
    configs = ((0, False), (2, True)) if quick else X.ALL_CONFIGS
    return {'examples': 300 if quick else 4000, 'configs': configs,
            'bounds': {'declarations': 8, 'extent': 3, 'ops': 30,
                       'configs': [X.cfg_name(c) for c in configs]},
            'tick_budget': 100000, 'avoid': avoid}


def setup_worker(cfg):
    X.set_parse_cache(True)


def strategy(cfg):
    return st.tuples(layout_programs(), G.styles())


def check(case, cfg):
    (prog, stats), style = case
    failures, info = c01.judge(prog, {}, style, cfg, configs=cfg['configs'])
    key = digest(info['text'])
    nontrivial = info['accepted'] and not info['inconclusive'] and \
        stats.get('two_aggregates', 0) > 0 and \
        stats.get('write_neighbour_then_read', 0) > 0
    cls = sorted('g:' + k for k in stats)
    cls.append('ref:' + info['ref_outcome'])
    fl = []
    if failures:
        enc = cases.encode_case(prog, {}, style)
        fl = [{'bucket': b, 'detail': d, 'case': enc} for b, d in failures]
    return {'key': key, 'nontrivial': nontrivial, 'classes': cls,
            'failures': fl, 'inconclusive': info['inconclusive'],
            'sample': cases.sample_of(info['text'], {})
            if nontrivial and key[0] in '01' else None}


def replay(obj, cfg):
    if 'expect' in obj:
        return c01.replay(obj, cfg)
    prog, script, style, text = cases.decode_case(obj)
    failures, info = c01.judge(prog, script, style, cfg,
                               configs=cfg['configs'])
    return {'failures': [{'bucket': b, 'detail': d, 'case': obj}
                         for b, d in failures]}


def shrink(failure, cfg):
    prog, script, style, text = cases.decode_case(failure['case'])
    bucket = failure['bucket']

    def still(p):
        fs, _ = c01.judge(p, script, style, cfg, configs=cfg['configs'])
        return any(b == bucket for b, _ in fs)
    small = SH.shrink_program(prog, still, max_tests=70)
    fs, _ = c01.judge(small, script, style, cfg, configs=cfg['configs'])
    for b, d in fs:
        if b == bucket:
            return {'bucket': b, 'detail': d,
                    'case': cases.encode_case(small, script, style)}
    return failure
