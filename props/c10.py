"""C10 - ON ERROR, RESUME and RESUME NEXT follow statement-level semantics.

Fault sequences: programs with a module-level handler and a drawn *failure
plan* - which statements fail (up to 5 per run), with which kind of error, at
which place inside the statement (operand of a nested expression, PRINT item
after other items, argument of a SUB / FUNCTION call, subscript, inside a
loop body, inside a called procedure) and what the handler does for the k-th
error (repair + RESUME, RESUME NEXT, END); also ON ERROR RESUME NEXT without
a handler, and ON ERROR GOTO 0 followed by a further failure.  Oracle: the
reference interpreter with statement-level ON ERROR semantics (trace and
outcome), plus the stack-depth monitor at every statement start outside the
handler."""
from hypothesis import strategies as st

from qv import ast as A
from qv import gen as G
from qv import render, run as X, cases, shrink as SH, monitor as M
from qv.runner import digest
from props import c01

ID = 'C10'
LEVEL = 'fault_enumeration'
RULE = ('Programs with ON ERROR GOTO handler / ON ERROR RESUME NEXT and a '
        'drawn failure plan of 1-5 failing statements; error kinds: '
        'division by zero (\\, /, MOD), overflow (conversion, LONG '
        'arithmetic), subscript, illegal function argument, out of data, '
        'DATA of the wrong type; failing expression placed as operand of a '
        'nested expression, as a later PRINT item, as SUB / FUNCTION '
        'argument, as subscript, in a FOR body, or inside a called '
        'procedure; handler action per error: repair + RESUME, RESUME NEXT, '
        'END; optional ON ERROR GOTO 0 followed by another failure; every '
        'program continues with GOSUB / RETURN, a SUB call and a FUNCTION '
        'call and prints all variables.  O0, O1, O2 with -g.  Non-trivial: '
        '>= 1 handled error at expression depth >= 2 or inside a call, '
        'followed by >= 1 call / return after resuming.  Distinct by text.')
ASSUMPTIONS = c01.ASSUMPTIONS + [
    'for an error inside a called procedure only handler entry and ERR are '
    'asserted (the handler ends the program)',
    'ERR is compared with the number of the trap code the reference maps '
    'the error class to (the same mapping C01/C07 assert for unhandled '
    'errors)']
CONFIGS = ((0, True), (1, True), (2, True))


def N(v):
    if v < 0:
        return A.Un('neg', A.Num('%', -v, str(-v)), '%')
    return A.Num('%', v, str(v))


def V(name):
    return A.LV(name, [], [], G.Gen.__dict__ and name[-1])


class EGen:
    def __init__(self, draw, noresume=False):
        self.noresume = noresume    # handlers never execute RESUME (C08)
        self.draw = draw
        self.stats = {}
        self.n = 0

    def i(self, lo, hi):
        return self.draw(st.integers(lo, hi))

    def chance(self, p):
        return self.draw(st.floats(0, 1, allow_nan=False)) < p

    def pick(self, seq):
        seq = list(seq)
        return seq[self.i(0, len(seq) - 1)]

    def note(self, k):
        self.stats[k] = self.stats.get(k, 0) + 1

    def failing_expr(self, kind):
        """-> (break statement, numeric expression that fails, repairable)"""
        if kind == 'div0':
            op = self.pick(['\\', 'MOD', '/'])
            t = '!' if op == '/' else '%'
            return (A.Assign(V('d%'), N(0)),
                    A.Bin(op, N(self.i(3, 40)), V('d%'), t), True)
        if kind == 'overflow':
            if self.chance(0.5):
                return (A.Assign(V('b&'), A.Num('&', 40000, '40000')),
                        A.BCall('CINT', [V('b&')], '%'), True)
            return (A.Assign(V('b&'), A.Num('&', 60000, '60000')),
                    A.Bin('*', V('b&'), V('b&'), '&'), True)
        if kind == 'subscript':
            return (A.Assign(V('k%'), N(self.pick([99, -1, 4]))),
                    A.LV('ar', [V('k%')], [], '!'), True)
        if kind == 'illegal':
            inner = self.pick([
                A.BCall('LEFT$', [A.Str('abcdef'), V('m%')], '$'),
                A.BCall('SPACE$', [V('m%')], '$'),
                A.BCall('CHR$', [V('m%')], '$'),
                A.BCall('MID$', [A.Str('abcdef'), N(2), V('m%')], '$')])
            return (A.Assign(V('m%'), N(-1)),
                    A.BCall('LEN', [inner], '&'), True)
        raise ValueError(kind)

    def wrap(self, f, shape):
        """A simple statement containing the failing expression f."""
        self.n += 1
        if shape == 'assign_deep':
            self.note('depth2')
            return A.Assign(V('v#'), A.Bin('+', N(3), A.Paren(A.Bin(
                '*', N(2), A.Paren(f), A.wider('%', f.t))),
                A.wider('%', f.t)))
        if shape == 'assign':
            return A.Assign(V('v#'), f)
        if shape == 'print_later_item':
            self.note('depth2')
            return A.Print([N(1), ';', A.Str('a%d' % self.n), ';', f, ';',
                            N(2)])
        if shape == 'sub_arg':
            self.note('in_call_args')
            return A.CallSub('ps', [N(4), A.Paren(A.Bin(
                '+', f, N(0), A.wider('%', f.t)))])
        if shape == 'func_arg':
            self.note('in_call_args')
            return A.Assign(V('v#'), A.Bin('+', A.FCall(
                'fq#', [A.Paren(A.Bin('+', f, N(1), A.wider('%', f.t)))],
                '#'), N(1), '#'))
        if shape == 'subscript':
            self.note('depth2')
            return A.Assign(A.LV('ar', [A.Bin(
                '+', N(1), A.BCall('ABS', [A.Bin('*', f, N(0),
                                                 A.wider('%', f.t))], f.t),
                A.wider('%', f.t))], [], '!'), N(7))
        raise ValueError(shape)

    def program_noresume(self):
        """ON ERROR GOTO handlers that carry on with GOTO / RETURN / END
        instead of RESUME: the failing statements sit in GOSUB routines, in
        loops and at module level, with pending operands in mid-expression."""
        top = [
            A.Dim('dim', [A.Decl('ar', '!', [(N(1), N(3))], True)]),
            A.Assign(V('d%'), N(1)), A.Assign(V('k%'), N(1)),
            A.Assign(V('m%'), N(1)), A.Assign(V('b&'), A.Num('&', 5, '5&')),
            A.OnError('hz')]
        routines = []
        handler_cases = []
        nfail = self.i(1, 3)
        for q in range(nfail):
            for _ in range(self.i(0, 2)):
                top.append(A.Print([A.Str('p%d' % q), ';', V('v#')]))
            kind = self.pick(['div0', 'div0', 'overflow', 'subscript',
                              'illegal'])
            brk, f, _ = self.failing_expr(kind)
            shape = self.pick(['assign_deep', 'assign', 'print_later_item',
                               'sub_arg', 'func_arg', 'subscript'])
            if kind == 'subscript' and shape == 'subscript':
                shape = 'assign_deep'
            stmt = self.wrap(f, shape)
            cont = 'c%dz' % q
            where = self.pick(['gosub', 'gosub', 'module', 'loop'])
            self.note('noresume_' + where)
            after = [A.LabelDef(cont), A.Print([A.Str('after%d' % q), ';',
                                                V('d%')])]
            if where == 'gosub':
                sub = 's%dz' % q
                top.append(A.Gosub(sub))
                routines.extend([A.LabelDef(sub), brk, stmt] + after +
                                [A.Return()])
                act = self.pick(['goto', 'goto', 'return', 'end'])
            elif where == 'loop':
                top.append(A.For(V('i%d%%' % q), N(1), N(2), None,
                                 [brk, stmt] + after))
                act = self.pick(['goto', 'end'])
            else:
                top.extend([brk, stmt] + after)
                act = self.pick(['goto', 'goto', 'end'])
            self.note('noresume_action_' + act)
            if act == 'goto':
                bodyk = [A.Goto(cont)]
            elif act == 'return':
                bodyk = [A.Return()]
            else:
                bodyk = [A.Print([A.Str('bye')]), A.End()]
            handler_cases.append(([('v', N(q + 1))], bodyk))
        top.append(A.Gosub('gz'))
        top.append(A.CallSub('ps', [N(1), N(2)]))
        top.append(A.Print([A.FCall('fq#', [N(3)], '#'), ';', V('v#')]))
        top.append(A.End())
        top.extend(routines)
        top.extend([A.LabelDef('gz'), A.Print([A.Str('g')]), A.Return()])
        top.extend([A.LabelDef('hz'),
                    A.Assign(V('hc%'), A.Bin('+', V('hc%'), N(1), '%')),
                    A.Print([A.Str('E'), ';', A.BCall('ERR', [], '%'), ';',
                             V('hc%')]),
                    A.Assign(V('d%'), N(2)), A.Assign(V('k%'), N(2)),
                    A.Assign(V('m%'), N(2)),
                    A.Assign(V('b&'), A.Num('&', 7, '7&')),
                    A.Select(V('hc%'), handler_cases,
                             [A.Print([A.Str('more')]), A.End()]),
                    A.End()])
        top.append(A.Proc('sub', 'ps', [A.Param('p1%', '%'),
                                        A.Param('p2#', '#')], False,
                          [A.Print([A.Str('s'), ';', V('p1%'), ';',
                                    V('p2#')])]))
        top.append(A.Proc('function', 'fq#', [A.Param('q1#', '#')], False,
                          [A.RetAssign('fq#', A.Bin('*', V('q1#'), N(2),
                                                    '#'), '#')], '#'))
        return A.Program(top)

    def program(self):
        if self.noresume:
            return self.program_noresume()
        mode = self.pick(['handler', 'handler', 'handler', 'next', 'inproc'])
        self.note('mode_' + mode)
        top = [
            A.Dim('dim', [A.Decl('ar', '!', [(N(1), N(3))], True)]),
            A.Assign(V('d%'), N(1)), A.Assign(V('k%'), N(1)),
            A.Assign(V('m%'), N(1)), A.Assign(V('b&'), A.Num('&', 5, '5&')),
        ]
        if mode == 'next':
            top.append(A.OnError('next'))
        else:
            top.append(A.OnError('hz'))
        actions = []
        nfail = self.i(1, 5) if mode != 'inproc' else 1
        body = []
        for q in range(nfail):
            # some ordinary statements
            for _ in range(self.i(0, 2)):
                body.append(A.Print([A.Str('p%d' % len(body)), ';',
                                     V('v#')]))
            if mode == 'inproc':
                body.append(A.Assign(V('d%'), N(0)))
                body.append(A.CallSub('pf', [A.Paren(V('d%'))]))
                self.note('in_procedure')
                actions.append('end')
                continue
            kind = self.pick(['div0', 'div0', 'overflow', 'subscript',
                              'illegal', 'outofdata', 'datatype'])
            self.note('kind_' + kind)
            if kind == 'outofdata':
                brk = A.Read([V('z1#'), V('z2#'), V('z3$')])
                stmt = A.Read([V('z4#')])
                act = self.pick(['resume', 'next'])
            elif kind == 'datatype':
                brk = A.Restore(None)
                stmt = A.Read([V('z5#'), V('z6#'), V('z7%')])
                act = 'next'
            else:
                brk, f, _ = self.failing_expr(kind)
                shape = self.pick(['assign_deep', 'assign', 'print_later_item',
                                   'sub_arg', 'func_arg', 'subscript',
                                   'ifline_cond', 'loop_tail_cond'])
                if kind == 'subscript' and shape == 'subscript':
                    shape = 'assign_deep'
                act = self.pick(['resume', 'resume', 'next', 'next', 'end'])
                if shape == 'ifline_cond':
                    self.note('header_ifline')
                    then = [A.Print([A.Str('then%d' % q)]),
                            A.Print([A.Str('then-b')])]
                    second = mode == 'handler' and self.chance(0.4)
                    if second:
                        # the condition fails first; after RESUME it holds and
                        # a statement of the THEN part fails next (its cause is
                        # never repaired: u0% stays 0), to be left by RESUME
                        # NEXT
                        then.insert(1, A.Assign(V('v#'), A.Bin(
                            '+', N(7), A.Paren(A.Bin('\\', N(9), V('u0%'),
                                                     '%')), '%')))
                        act = 'resume'
                        self.note('second_error_in_then_part')
                    stmt = A.IfLine(A.Bin('>', f, N(-5), '%'), then,
                                    [A.Print([A.Str('else%d' % q)])]
                                    if self.chance(0.5) else None)
                elif shape == 'loop_tail_cond':
                    self.note('header_loop_tail')
                    cv = 'c%d%%' % q
                    stmt = A.Do(self.pick(['loop_until', 'loop_while']),
                                A.Bin('>', A.Bin('+', f, V(cv),
                                                 A.wider('%', f.t)),
                                      N(1000), '%'),
                                [A.Assign(V(cv), A.Bin('+', V(cv), N(1),
                                                       '%')),
                                 A.If([(A.Bin('>', V(cv), N(0), '%'),
                                        [A.Print([A.Str('body'), ';',
                                                  V(cv)])])], None),
                                 A.Print([A.Str('tail')])])
                    if stmt.kind == 'loop_until':
                        # must terminate: UNTIL (f + c) > 1000 never holds ->
                        # make the condition true after the repair
                        stmt.cond = A.Bin('<', A.Bin(
                            '+', f, V(cv), A.wider('%', f.t)), N(1000), '%')
                else:
                    stmt = self.wrap(f, shape)
            extra_acts = []
            if kind not in ('outofdata', 'datatype') and \
                    shape == 'ifline_cond' and mode == 'handler' and \
                    any(isinstance(x, A.Assign) for x in stmt.then):
                extra_acts = ['next']
            if mode == 'next':
                act = 'skip'
            in_loop = self.chance(0.25) and kind not in ('outofdata',
                                                         'datatype')
            if in_loop:
                lv = 'i%d%%' % q
                body.append(A.For(V(lv), N(1), N(2), None,
                                  [brk, stmt, A.Print([A.Str('in loop'), ';',
                                                       V(lv)])]))
                self.note('in_loop')
                # the failure happens in both iterations
                actions.extend([act] + extra_acts)
                actions.extend([act] + extra_acts)
            elif self.chance(0.3):
                # the failing statement is the first one of a block
                body.append(brk)
                tail = A.Print([A.Str('in block'), ';', N(q)])
                blk = self.pick(['do', 'for', 'if', 'while'])
                if blk == 'do':
                    body.append(A.Do('loop_until', N(1), [stmt, tail]))
                elif blk == 'for':
                    body.append(A.For(V('j%d%%' % q), N(1), N(1), None,
                                      [stmt, tail]))
                elif blk == 'if':
                    body.append(A.If([(N(1), [stmt, tail])], None))
                else:
                    wv = 'w%d%%' % q
                    body.append(A.While(A.Bin('<', V(wv), N(1), '%'),
                                        [stmt, tail, A.Assign(V(wv), N(1))]))
                self.note('first_in_block_' + blk)
                actions.extend([act] + extra_acts)
            else:
                body.append(brk)
                # statements that generate no code right next to the failing
                # one (their empty records must not disturb its boundaries)
                zs = []
                for side in range(2):
                    if self.chance(0.35):
                        zs.append(self.pick([
                            A.Const('zc%d%d%%' % (q, side), N(1)),
                            A.Dim('dim', [A.Decl('zd%d%d' % (q, side), '%',
                                                 None, True)])]))
                        self.note('zero_code_neighbour')
                    else:
                        zs.append(None)
                if zs[0] is not None:
                    body.append(zs[0])
                body.append(stmt)
                if zs[1] is not None:
                    body.append(zs[1])
                actions.extend([act] + extra_acts)
            self.note('action_' + act)
        top.extend(body)
        # continuation: calls and returns must behave normally
        top.append(A.Gosub('gz'))
        top.append(A.CallSub('ps', [N(1), N(2)]))
        top.append(A.Print([A.FCall('fq#', [N(3)], '#'), ';', V('v#'), ';',
                            V('d%'), ';', V('k%'), ';', V('m%'), ';',
                            V('b&'), ';', A.LV('ar', [N(1)], [], '!')]))
        if mode == 'handler' and self.chance(0.4):
            top.append(A.OnError(0))
            brk, f, _ = self.failing_expr(self.pick(['div0', 'overflow',
                                                     'subscript']))
            top.append(brk)
            top.append(self.wrap(f, 'assign_deep'))
            top.append(A.Print([A.Str('not reached')]))
            self.note('goto_0_then_failure')
        top.append(A.End())
        top.append(A.LabelDef('gz'))
        top.append(A.Print([A.Str('g')]))
        top.append(A.Return())
        if mode == 'inproc':
            # the handler of an error raised inside a procedure only reports
            # it (known finding: it runs in the procedure's frame)
            top.extend([A.LabelDef('hz'),
                        A.Print([A.Str('E'), ';', A.BCall('ERR', [], '%')]),
                        A.End()])
        elif mode != 'next':
            h = [A.LabelDef('hz'),
                 A.Assign(V('hc%'), A.Bin('+', V('hc%'), N(1), '%')),
                 A.Print([A.Str('E'), ';', A.BCall('ERR', [], '%'), ';',
                          V('hc%')]),
                 A.Assign(V('d%'), N(2)), A.Assign(V('k%'), N(2)),
                 A.Assign(V('m%'), N(2)),
                 A.Assign(V('b&'), A.Num('&', 7, '7&'))]
            casesl = []
            for k, act in enumerate(actions):
                if act == 'resume':
                    bodyk = [A.Resume(False)]
                    if self.chance(0.3):
                        bodyk = [A.Restore(None)] + bodyk
                elif act == 'next':
                    bodyk = [A.Resume(True)]
                else:
                    bodyk = [A.Print([A.Str('bye')]), A.End()]
                casesl.append(([('v', N(k + 1))], bodyk))
            h.append(A.Select(V('hc%'), casesl, [A.Resume(True)]))
            h.append(A.Resume(True))
            top.extend(h)
        top.append(A.Data('1.5, 2.5, "txt"'))
        top.append(A.Proc('sub', 'ps', [A.Param('p1%', '%'),
                                        A.Param('p2#', '#')], False,
                          [A.Print([A.Str('s'), ';', V('p1%'), ';',
                                    V('p2#')])]))
        top.append(A.Proc('function', 'fq#', [A.Param('q1#', '#')], False,
                          [A.RetAssign('fq#', A.Bin('*', V('q1#'), N(2),
                                                    '#'), '#')], '#'))
        top.append(A.Proc('sub', 'pf', [A.Param('z%', '%')], False,
                          [A.Print([A.Str('in pf')]),
                           A.Assign(V('x9!'), A.Bin('\\', N(1), V('z%'),
                                                    '%')),
                           A.Print([A.Str('not reached')])]))
        return A.Program(top)


def V(name):               # noqa: F811  (typed variable reference)
    return A.LV(name, [], [], name[-1])


@st.composite
def error_programs(draw, noresume=False):
    g = EGen(draw, noresume=noresume)
    return g.program(), g.stats


def configure(tier, avoid):
    quick = tier == 'quick'
    return {'examples': 300 if quick else 5000,
            'bounds': {'failures_per_run': 5,
                       'configs': [X.cfg_name(c) for c in CONFIGS]},
            'tick_budget': 60000, 'avoid': avoid}


def setup_worker(cfg):
    X.set_parse_cache(True)


def strategy(cfg):
    return st.tuples(error_programs(), G.styles())


def judge(prog, style, cfg, monitor=True):
    failures, info = c01.judge(prog, {}, style, cfg, configs=CONFIGS)
    if info['accepted'] and not info['inconclusive'] and monitor:
        for c in CONFIGS:
            m = X.compile_one(info['text'], *c)
            if m.kind != 'accepted':
                continue
            mon = M.SafetyMonitor(m.module, through_errors=True)
            rr = X.execute(m.module, X.Script(),
                           tick_budget=cfg['tick_budget'],
                           before_tick=mon.before, on_tick=mon.after)
            for kind, detail in mon.finish(rr):
                if kind.startswith('machine_trap') or \
                        kind.startswith('host_exc'):
                    continue       # already judged against the reference
                failures.append(('monitor:' + kind, dict(
                    detail, config=X.cfg_name(c))))
    seen = {}
    for b, d in failures:
        seen.setdefault(b, d)
    return list(seen.items()), info


def check(case, cfg):
    (prog, stats), style = case
    failures, info = judge(prog, style, cfg,
                           monitor=not stats.get('mode_inproc'))
    key = digest(info['text'])
    deep = stats.get('depth2', 0) + stats.get('in_call_args', 0) + \
        stats.get('in_procedure', 0)
    nontrivial = info['accepted'] and not info['inconclusive'] and \
        'handled_error' in info['features'] and deep > 0
    cls = sorted('g:' + k for k in stats) + ['ref:' + info['ref_outcome']]
    if 'handled_error' in info['features']:
        cls.append('ref:handled_error')
    fl = []
    if failures:
        enc = cases.encode_case(prog, {}, style)
        fl = [{'bucket': b, 'detail': d, 'case': enc} for b, d in failures]
    return {'key': key, 'nontrivial': nontrivial, 'classes': cls,
            'failures': fl, 'inconclusive': info['inconclusive'],
            'sample': cases.sample_of(info['text'], {})
            if nontrivial and key[0] in '01' else None}


def replay(obj, cfg):
    if 'expect' in obj:
        r = c01.replay(obj, dict(cfg))
        return r
    prog, script, style, text = cases.decode_case(obj)
    failures, info = judge(prog, style, cfg)
    return {'failures': [{'bucket': b, 'detail': d, 'case': obj}
                         for b, d in failures]}


def shrink(failure, cfg):
    prog, script, style, text = cases.decode_case(failure['case'])
    bucket = failure['bucket']

    def still(p):
        fs, _ = judge(p, style, cfg)
        return any(b == bucket for b, _ in fs)
    small = SH.shrink_program(prog, still, max_tests=40)
    fs, _ = judge(small, style, cfg)
    for b, d in fs:
        if b == bucket:
            return {'bucket': b, 'detail': d,
                    'case': cases.encode_case(small, {}, style)}
    return failure
