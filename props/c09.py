"""C09 - Binary module, loader, disassembler and assembly listing agree.

For every accepted generated program and configuration:
 (i) round trip: the loader's literals / DATA parts / global size / code are
     what the program calls for - literals contain every string literal of
     the source, DATA parts equal the reference tokenisation, the code bytes
     decode completely with an own decoder;
 (ii) agreement: listing (.code) and disassembly are parsed into instruction
     sequences and compared position by position - mnemonic, immediates,
     labels (resolved by an own size-summing pass over the listing), literal
     operands (resolved through the loader's literal table), variable names
     (resolved through an own layout of the listing's .routines / .globals /
     .types tables);
 (iii) validity: jump / call / handler operands are instruction starts,
     variable operands lie inside the routine's frame or the global area,
     every `frame p, l` equals the storage its routine's table needs."""
import re
import struct

from hypothesis import strategies as st

from qv import ast as A
from qv import gen, render, run as X, cases, shrink as SH, decode as D
from qv import ref as RF
from qv.runner import digest

ID = 'C09'
LEVEL = 'exploration'
RULE = ('Programs from the typed generator G with string literals over '
        'printable cp437 (0x20-0xFF except the quote), DATA in every layout, '
        'several routines, labels, records, static / dynamic arrays, STATIC '
        'and SHARED variables, compiled at all six configurations; plus a '
        'deterministic size-boundary family (255 / 256 / 300 locals, arrays '
        'crossing cell index 255 and 65535, 300 literals, a 1000-item DATA '
        'part; thorough: a 65 535-character literal and 33 000 DATA items). '
        'Non-trivial: >= 2 routines, >= 1 label operand and >= 1 non-ASCII '
        'literal or empty DATA item.  Distinct by (text, configuration).')
ASSUMPTIONS = [
    'the opcode table of qv/decode.py and the device-id table below are '
    'transcriptions of the instruction set as data, not imports',
]
DEVICES = {'terminal': (2, {'cls': 1, 'print': 2, 'color': 3, 'view_print': 4,
                            'set_mode': 5, 'width': 6, 'locate': 7,
                            'input': 8, 'inkey': 9}),
           'pcspkr': (3, {'beep': 1, 'play': 2, 'sound': 3}),
           'time': (5, {'get_time': 1}),
           'rng': (6, {'seed': 1, 'rnd': 2}),
           'memory': (7, {'poke': 1, 'peek': 2, 'set_segment': 3,
                          'set_default_segment': 4, 'bsave': 5, 'bload': 6}),
           'data': (8, {'read': 1, 'restore': 2}),
           'fs': (9, {'kill': 1})}
SCALAR_NAMES = {'integer', 'long', 'single', 'double', 'string'}


# ------------------------------------------------------------ listing

class Listing:
    def __init__(self, text):
        self.types = {}        # name -> [(ftype, fname)]
        self.literals = []
        self.data = {}         # label -> [items]
        self.globals = []      # [(type text, name)]
        self.routines = {}     # name -> [(type text, name)]
        self.code = []         # ('label', name) | ('ins', op, [args])
        sec = None
        cur = None
        for line in text.split('\n'):
            if line.startswith(';;;'):
                continue
            if line.startswith('.'):
                sec = line.strip()
                cur = None
                continue
            if sec == '.literals':
                m = re.match(r'    (\d+) string "(.*)"$', line, re.S)
                if m:
                    self.literals.append(m.group(2))
                elif line and self.literals:
                    # a literal containing a line break cannot occur
                    self.literals[-1] += '\n' + line
                continue
            if not line.strip() and sec != '.data':
                continue
            if sec == '.types':
                if not line.startswith(' '):
                    cur = line.rstrip(':')
                    self.types[cur] = []
                else:
                    ft, fn = line.split()
                    self.types[cur].append((ft, fn))
            elif sec == '.data':
                if line and not line.startswith(' '):
                    cur = line.rstrip(':')
                    self.data[cur] = []
                elif line.startswith('    ') and cur is not None:
                    self.data[cur].append(line[4:])
            elif sec == '.globals':
                self.globals.append(self.split_decl(line.strip()))
            elif sec == '.routines':
                if not line.startswith(' '):
                    cur = line.rstrip(':')
                    self.routines[cur] = []
                else:
                    self.routines[cur].append(self.split_decl(line.strip()))
            elif sec == '.code':
                if not line.startswith(' '):
                    self.code.append(('label', line.rstrip(':')))
                else:
                    self.code.append(self.split_instr(line.strip()))

    @staticmethod
    def split_decl(s):
        # "<type text> <name>", type text may contain blanks inside (...)
        depth = 0
        for i, ch in enumerate(s):
            if ch == '(':
                depth += 1
            elif ch == ')':
                depth -= 1
            elif ch == ' ' and depth == 0:
                return s[:i], s[i + 1:]
        return s, ''

    @staticmethod
    def split_instr(s):
        m = re.match(r'(\S+)\s*(.*)$', s, re.S)
        op, rest = m.group(1), m.group(2)
        if op == 'push$':
            return ('ins', op, [rest])
        args = [a.strip() for a in rest.split(',')] if rest else []
        return ('ins', op, args)

    # own size rules
    def type_size(self, t):
        m = re.match(r'([^()]+)(\((.*)\))?$', t)
        base, has_dims, dims = m.group(1), m.group(2), m.group(3)
        if base in SCALAR_NAMES:
            esz = 1
        else:
            esz = sum(self.type_size(ft) for ft, _ in self.types[base])
        if not has_dims:
            return esz
        if not dims.strip():
            return 1                 # run-time sized array: one reference
        n = 1
        rank = 0
        for d in dims.split(','):
            lo, hi = d.split(' to ')
            n *= int(hi) - int(lo) + 1
            rank += 1
        return 3 + 2 * rank + n * esz


def layout(listing, routine, nparams):
    """name -> (index, size) for the routine's frame by own rules."""
    out = {}
    idx = 0
    for k, (t, name) in enumerate(listing.routines.get(routine, [])):
        size = 1 if k < nparams else listing.type_size(t)
        out.setdefault(name, (idx, size))
        idx += size
    return out, idx


def global_layout(listing):
    out = {}
    idx = 0
    for t, name in listing.globals:
        size = listing.type_size(t)
        out.setdefault(name, (idx, size))
        idx += size
    return out, idx


def parse_disassembly(text):
    out = []
    for line in text.split('\n'):
        if not line.strip():
            continue
        m = re.match(r'([0-9a-f]{8}): (\S+)\s*(.*)$', line, re.S)
        if not m:
            out.append(('?', line))
            continue
        addr, op, rest = int(m.group(1), 16), m.group(2), m.group(3)
        comment = None
        if op == 'push$':
            mm = re.match(r'(\d+)\s*; "(.*)"$', rest, re.S)
            if mm:
                rest, comment = mm.group(1), mm.group(2)
        args = [a.strip() for a in rest.split(',')] if rest.strip() else []
        out.append((addr, op, args, comment))
    return out


def num_eq(op, a, b):
    """Listing operand text vs disassembly operand text for push<type>."""
    try:
        if op[-1] in '%&':
            return int(float(a)) == int(b)
        fa, fb = float(a), float(b)
        if op[-1] == '!':
            fa = struct.unpack('>f', struct.pack('>f', fa))[0]
        return fa == fb or (fa != fa and fb != fb)
    except (ValueError, OverflowError, struct.error):
        return False


# -------------------------------------------------------------- checks

def check_module(text, acc, prog_literals=None, data_items=None):
    """All C09 predicates for one accepted compilation -> [(bucket, detail)]"""
    out = []
    module, listing_text = acc.module, acc.listing

    def bad(kind, **d):
        if len(out) < 12:
            out.append((kind, d))
    # (i) round trip
    try:
        instrs = D.decode(module.code)
    except D.DecodeError as e:
        bad('code_does_not_decode', msg=str(e))
        return out
    starts = D.starts(instrs)
    try:
        L = Listing(listing_text)
    except Exception as e:
        bad('listing_unparsable', msg='%s: %s' % (type(e).__name__, e))
        return out
    if L.literals != list(module.literals):
        bad('literals:listing_vs_loader', listing=L.literals[:5],
            loader=list(module.literals)[:5])
    if prog_literals is not None:
        missing = [s for s in prog_literals if s not in module.literals]
        if missing:
            bad('literals:source_literal_missing', missing=missing[:3])
    flat = [None if not isinstance(x, str) else x
            for part in module.data for x in part]
    if data_items is not None and flat != data_items:
        bad('data:loader_vs_reference', loader=flat[:8], want=data_items[:8])
    lflat = [None if x == '<EMPTY>' else x
             for items in L.data.values() for x in items]
    if lflat != flat:
        bad('data:listing_vs_loader', listing=lflat[:6], loader=flat[:6])
    gl, gsize = global_layout(L)
    if gsize != module.n_global_cells:
        bad('globals:size', loader=module.n_global_cells, own_layout=gsize)
    # (ii) listing vs disassembly
    try:
        import io
        import contextlib
        with contextlib.redirect_stderr(io.StringIO()):
            dis = parse_disassembly(module.disassemble())
    except BaseException as e:
        bad('disassembler_failed', msg='%s: %s' % (type(e).__name__, e))
        return out
    if [d[0] for d in dis if d[0] != '?'] != [i.addr for i in instrs] or \
            any(d[0] == '?' for d in dis):
        bad('disassembly:instruction_boundaries',
            n_dis=len(dis), n_own=len(instrs))
        return out
    lins = [c for c in L.code if c[0] == 'ins']
    if len(lins) != len(instrs):
        bad('listing:instruction_count', listing=len(lins),
            binary=len(instrs))
        return out
    # label addresses by own size summing
    labels = {}
    addr = 0
    k = 0
    for c in L.code:
        if c[0] == 'label':
            labels[c[1]] = addr
        else:
            ent = D.OPCODE_OF.get(c[1])
            if ent is None:
                bad('listing:unknown_mnemonic', op=c[1])
                return out
            addr += 1 + struct.calcsize('>' + D.ISA[ent][1])
    # routine of each instruction
    cur_routine = '_main'
    nparams = {}
    routine_of = []
    for c in L.code:
        if c[0] == 'label':
            if c[1].startswith('_sub_'):
                cur_routine = c[1][5:]
            elif c[1].startswith('_func_'):
                cur_routine = c[1][6:]
        else:
            if c[1] == 'frame':
                nparams[cur_routine] = int(c[2][0])
            routine_of.append(cur_routine)
    layouts = {}
    for (_, lop, largs), ins, (daddr, dop, dargs, dcomment), rt in zip(
            lins, instrs, dis, routine_of):
        if lop != ins.op or dop != ins.op:
            bad('mnemonic', addr=ins.addr, listing=lop, disassembly=dop,
                binary=ins.op)
            continue
        op = ins.op
        if rt not in layouts:
            layouts[rt] = layout(L, rt, nparams.get(rt, 0))
        lay, fsize = layouts[rt]
        if op in ('jmp', 'jz', 'call') or (op == 'errhand' and
                                            largs[0] not in ('0', '1')):
            want = labels.get(largs[0])
            got = ins.args[0]
            if want is None or want != got or int(dargs[0], 16) != got:
                bad('label_operand', op=op, addr=ins.addr, label=largs[0],
                    listing_resolves_to=want, binary=got,
                    disassembly=dargs[0])
            if got not in starts:
                bad('jump_into_instruction', op=op, addr=ins.addr,
                    target=got)
        elif op == 'errhand':
            if int(largs[0]) != ins.args[0]:
                bad('immediate', op=op, addr=ins.addr)
        elif op == 'push$':
            lit = largs[0][1:-1] if len(largs[0]) >= 2 else None
            idx = ins.args[0]
            if idx >= len(module.literals) or module.literals[idx] != lit \
                    or dcomment != lit:
                bad('literal_operand', addr=ins.addr, listing=lit,
                    index=idx, disassembly=dcomment)
        elif op.startswith('push') and op[4:] in ('%', '&', '!', '#'):
            if not num_eq(op, largs[0], dargs[0]):
                bad('immediate:' + op, addr=ins.addr, listing=largs[0],
                    disassembly=dargs[0])
        elif op == 'io':
            dev = DEVICES.get(largs[0])
            if dev is None or dev[0] != ins.args[0] or \
                    dev[1].get(largs[1]) != ins.args[1]:
                bad('io_operand', addr=ins.addr, listing=largs,
                    binary=ins.args)
        elif op == 'frame':
            if [int(a) for a in largs] != ins.args or \
                    [int(a) for a in dargs] != ins.args:
                bad('immediate:frame', addr=ins.addr)
            need_total = fsize
            if ins.args[0] + ins.args[1] != need_total:
                bad('frame_size', routine=rt, frame=ins.args,
                    own_layout_total=need_total)
        elif op in ('allocarr', 'arridx'):
            if [int(a) for a in largs] != ins.args:
                bad('immediate:' + op, addr=ins.addr)
        elif op[:-1] in ('readl', 'readidxl') or op in (
                'storel', 'storeidxl', 'pushrefl', 'initarrl'):
            ent = lay.get(largs[0])
            if ent is None:
                bad('variable:not_in_routine_table', op=op, name=largs[0],
                    routine=rt)
                continue
            if ent[0] != ins.args[0] or int(dargs[0]) != ins.args[0]:
                bad('variable:index', op=op, name=largs[0], routine=rt,
                    own_layout=ent[0], binary=ins.args[0])
            off = ins.args[1] if 'idx' in op else 0
            if ins.args[0] + off >= fsize or off >= max(ent[1], 1):
                bad('variable:outside_frame', op=op, name=largs[0],
                    routine=rt, index=ins.args[0] + off, frame=fsize)
            if op == 'initarrl':
                n_dims, esz = ins.args[1], ins.args[2]
                if [int(largs[1]), int(largs[2])] != [n_dims, esz] or \
                        ent[1] < 3 + 2 * n_dims:
                    bad('initarr_operands', name=largs[0], routine=rt)
        elif op[:-1] in ('readg', 'readidxg') or op in (
                'storeg', 'storeidxg', 'pushrefg', 'initarrg'):
            name = largs[0]
            ent = gl.get(name) or gl.get('_static_%s_%s' % (rt, name))
            if ent is None:
                bad('variable:not_in_global_table', op=op, name=name)
                continue
            if ent[0] != ins.args[0] or int(dargs[0]) != ins.args[0]:
                bad('variable:global_index', op=op, name=name,
                    own_layout=ent[0], binary=ins.args[0])
            off = ins.args[1] if 'idx' in op else 0
            if ins.args[0] + off >= module.n_global_cells:
                bad('variable:outside_globals', op=op, name=name)
        else:
            if largs or ins.args:
                bad('unexpected_operands', op=op, addr=ins.addr)
    return out


def source_facts(prog):
    """String literals and DATA items of an AST, by the reference rules."""
    lits = []
    data = []

    def ex(e):
        if isinstance(e, A.Str):
            lits.append(e.v)
        elif isinstance(e, (A.Bin,)):
            ex(e.l)
            ex(e.r)
        elif isinstance(e, (A.Un, A.Paren)):
            ex(e.e)
        elif isinstance(e, (A.BCall, A.FCall)):
            for a in e.args:
                ex(a)
        elif isinstance(e, A.LV):
            for a in e.idx:
                ex(a)
    for s, _ in A.walk_stmts(prog.body):
        if isinstance(s, A.Data):
            data.extend(RF.tokenize_data(s.raw))
    return lits, [None if it is None else it[1] for it in data]


CP437_HIGH = bytes(range(0x80, 0x100)).decode('cp437')
CP437_LOW = ''.join(chr(c) for c in range(0x20, 0x7f) if chr(c) != '"')


def boundary_programs(tier):
    out = []
    # every printable cp437 character in literals and in DATA items
    chunks = [CP437_LOW[k:k + 24] for k in range(0, len(CP437_LOW), 24)] + \
        [CP437_HIGH[k:k + 16] for k in range(0, 128, 16)]
    out.append(('cp437_all_chars', ''.join(
        'PRINT "%s"\n' % c for c in chunks) + 'READ a$, b$\nPRINT a$; b$\n' +
        ''.join('DATA "%s", "%s"\n' % (c, c[::-1]) for c in chunks)))
    for n in (255, 256, 300):
        out.append(('locals_%d' % n, ''.join(
            'v%d%% = %d\n' % (k, k % 100) for k in range(n)) +
            'PRINT v0%; v' + str(n - 1) + '%\n'))
    out.append(('cells_past_255', 'DIM a(300) AS LONG\nx% = 7\na(300) = 5\n'
                'PRINT a(300); x%\nCALL s\nSUB s\nDIM b(270)\ny = 1\n'
                'PRINT b(270); y\nEND SUB\n'))
    out.append(('cells_near_65535', 'DIM SHARED a(65500) AS INTEGER\n'
                'DIM SHARED z AS INTEGER\nz = 3\na(65500) = 9\n'
                'PRINT a(65500); z\n'))
    out.append(('REJECT:cells_past_65535', 'DIM SHARED a(70000) AS INTEGER\n'
                'DIM SHARED z AS INTEGER\nz = 3\n'))
    out.append(('literals_300', ''.join(
        'PRINT "lit%d"\n' % k for k in range(300))))
    out.append(('data_1000', 'READ a$\nPRINT a$\nDATA ' + ','.join(
        'i%d' % k for k in range(1000)) + '\nRESTORE\n'))
    out.append(('record_offsets', 'TYPE a1\nx AS INTEGER\ny AS STRING\n'
                'END TYPE\nTYPE b1\np AS LONG\nq AS a1\nr AS a1\nw AS DOUBLE\n'
                'END TYPE\nDIM v AS b1, arr(1 TO 3) AS b1\nv.r.y = "s"\n'
                'arr(2).w = 1.5\nPRINT v.r.y; arr(2).w\n'))
    out.append(('literal_40000', 'PRINT LEN("' + 'y' * 40000 + '")\n'))
    if tier == 'thorough':
        out.append(('literal_65535', 'PRINT LEN("' + 'x' * 65535 + '")\n'))
        out.append(('data_33000', 'READ a$\nPRINT a$\nDATA ' + ','.join(
            '%d' % (k % 10) for k in range(33000)) + '\n'))
        out.append(('literals_33000', ''.join(
            'a$ = "s%d"\n' % k for k in range(3000))))
    return out


def configure(tier, avoid):
    quick = tier == 'quick'
    p = gen.Params(max_stmts=14 if quick else 28, max_depth=2, expr_depth=2,
                   max_procs=3, avoid=avoid, nonascii=True, dead_code=0.3)
    return {'examples': 250 if quick else 4000, 'params': p, 'tier': tier,
            'bounds': {'configs': [X.cfg_name(c) for c in X.ALL_CONFIGS]}}


def setup_worker(cfg):
    X.set_parse_cache(True)


def strategy(cfg):
    return st.tuples(gen.programs(cfg['params']), gen.styles())


def items(cfg):
    return boundary_programs(cfg['tier'])


def judge_text(text, prog=None, facts=None):
    failures = []
    info = {'accepted': False, 'routines': 0, 'labels': 0}
    lits, data = facts or (None, None)
    if prog is not None:
        try:
            lits, data = source_facts(prog)
        except RF.Unsupported:
            lits = data = None
    for c in X.ALL_CONFIGS:
        m = X.compile_one(text, *c)
        if m.kind != 'accepted':
            if m.kind == 'host_exc':
                failures.append(('not_produced:' + m.bucket(), {
                    'config': X.cfg_name(c), 'stage': m.stage,
                    'msg': m.msg}))
            continue
        info['accepted'] = True
        for kind, d in check_module(text, m, lits, data):
            failures.append((kind, dict(d, config=X.cfg_name(c))))
        info['routines'] = max(info['routines'],
                               m.listing.count('\n    frame'))
        info['labels'] = max(info['labels'], len(re.findall(
            r'\n    (?:jmp|jz|call) ', m.listing)))
    seen = {}
    for b, d in failures:
        seen.setdefault(b, d)
    return list(seen.items()), info


def check(case, cfg):
    (prog, script, stats), style = case
    text = render.render(prog, style).text
    failures, info = judge_text(text, prog)
    key = digest(text)
    nonascii = any(ord(ch) > 127 for ch in text)
    empty_data = any(isinstance(s, A.Data) and (
        not s.raw.strip() or ',,' in s.raw.replace(' ', '') or
        s.raw.strip().endswith(','))
        for s, _ in A.walk_stmts(prog.body))
    nontrivial = info['accepted'] and info['routines'] >= 2 and \
        info['labels'] >= 1 and (nonascii or empty_data)
    cls = []
    if nonascii:
        cls.append('non_ascii_literal')
    if empty_data:
        cls.append('empty_data_item')
    if info['routines'] >= 2:
        cls.append('two_routines')
    fl = []
    if failures:
        enc = cases.encode_case(prog, script, style)
        fl = [{'bucket': b, 'detail': d, 'case': enc} for b, d in failures]
    return {'key': key, 'nontrivial': nontrivial, 'classes': cls,
            'failures': fl,
            'sample': {'source': text} if nontrivial and key[0] in '01'
            else None}


def check_item(item, cfg):
    name, text = item
    prog_lits = data_items = None
    if name == 'cp437_all_chars':
        prog_lits = re.findall(r'PRINT "([^"]*)"', text)
        data_items = [x for pair in re.findall(
            r'DATA "([^"]*)", "([^"]*)"', text) for x in pair]
    failures, info = judge_text(text, facts=(prog_lits, data_items))
    if name.startswith('REJECT:'):
        if info['accepted']:
            failures.append(('boundary_program_accepted', {'name': name}))
    elif not info['accepted']:
        failures.append(('boundary_program_not_accepted', {'name': name}))
    return {'key': digest(name), 'nontrivial': True,
            'classes': ['boundary:' + name],
            'failures': [{'bucket': 'boundary:' + b, 'detail': dict(
                d, name=name), 'case': {'text': text if len(text) < 4000
                                        else None, 'name': name}}
                         for b, d in failures],
            'sample': {'boundary_case': name}}


def replay(obj, cfg):
    text = obj.get('text')
    if text is None:
        for name, t in boundary_programs('thorough'):
            if name == obj.get('name'):
                text = t
    prog = None
    if obj.get('ast'):
        prog = cases.decode_case(obj)[0]
    failures, info = judge_text(text, prog)
    pre = 'boundary:' if obj.get('name') else ''
    return {'failures': [{'bucket': pre + b, 'detail': d, 'case': obj}
                         for b, d in failures]}


def shrink(failure, cfg):
    obj = failure['case']
    if not obj.get('ast'):
        return failure
    prog, script, style, text = cases.decode_case(obj)
    bucket = failure['bucket']

    def still(p):
        fs, _ = judge_text(render.render(p, style).text, p)
        return any(b == bucket for b, _ in fs)
    small = SH.shrink_program(prog, still, max_tests=50)
    fs, _ = judge_text(render.render(small, style).text, small)
    for b, d in fs:
        if b == bucket:
            return {'bucket': b, 'detail': d,
                    'case': cases.encode_case(small, script, style)}
    return failure
