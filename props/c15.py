"""C15 - DATA items are read in source order and RESTORE repositions exactly.

(i) every DATA text over {letter, digit, blank, comma, quote, colon} up to a
length bound goes through the whole pipeline (compile -> data section ->
READ -> PRINT) and must deliver the items of the reference tokenizer
(qv.ref.tokenize_data, written from the property text), no more, no fewer;
(ii) generated programs with DATA statements and labels in drawn placements
(before / between / after executed code, after procedures, labels without
DATA of their own, several labels before one DATA) and a drawn sequence of
READ into variables of every type and RESTORE [label], judged by the
reference interpreter."""
import itertools

from hypothesis import strategies as st

from qv import ast as A
from qv import gen as G
from qv import render, run as X, cases, shrink as SH, ref as RF
from qv.runner import digest, derive_seed
from props import c01

ID = 'C15'
LEVEL = 'exploration'
ALPHABET = 'a1 ,":'
RULE = ('(i) all DATA texts over {a, 1, blank, comma, quote, colon} up to '
        'length 5 (quick: seeded sample of 1500; thorough: all 9331, and all '
        'texts of length 6 sampled) compiled at O0 and O2-g and read back '
        'item by item into string variables, with a final READ that must '
        'run out of data; a colon outside quotes ends the statement (the '
        'remainder is made a new DATA statement); (ii) programs with 2-6 '
        'DATA statements and 0-5 labels in drawn placements and 3-14 READ / '
        'RESTORE / RESTORE label operations into targets of every type, '
        'compiled at O0/O2/O1-g.  Non-trivial: (i) the text contains a '
        'quote or an empty item; (ii) the program executes a RESTORE to a '
        'label that carries no DATA of its own or has DATA after a '
        'procedure.  Distinct by program text.')
ASSUMPTIONS = c01.ASSUMPTIONS + [
    'text after a closing quote other than blanks and a comma is a syntax '
    'error in QBASIC; such texts only have to be rejected or accepted alike '
    'at every configuration']


def all_texts(maxlen):
    for n in range(0, maxlen + 1):
        for tup in itertools.product(ALPHABET, repeat=n):
            yield ''.join(tup)


def split_statements(text):
    """Split a DATA text at colons outside quotes -> list of DATA texts."""
    parts = []
    cur = ''
    inq = False
    at_item_start = True
    for ch in text:
        if ch == '"' and (inq or at_item_start):
            inq = not inq
            cur += ch
            at_item_start = False
            continue
        if ch == ':' and not inq:
            parts.append(cur)
            cur = ''
            at_item_start = True
            continue
        cur += ch
        if ch == ',' and not inq:
            at_item_start = True
        elif ch not in ' \t':
            at_item_start = False
    parts.append(cur)
    return parts


def expected_items(text):
    """Reference items of `DATA <text>`; None if the text is malformed
    (text after a closing quote)."""
    items = []
    for part in split_statements(text):
        try:
            toks = RF.tokenize_data(part)
        except RF.Unsupported:
            return None
        items.extend(toks)
    return items


def pipeline_program(text, items):
    lines = ['DATA ' + ':DATA '.join(split_statements(text))]
    for k in range(len(items)):
        lines.append('READ x$: PRINT "[" + x$ + "]"')
    lines.append('PRINT "end"')
    lines.append('READ x$')
    lines.append('PRINT "more: [" + x$ + "]"')
    return '\n'.join(lines) + '\n'


def configure(tier, avoid):
    quick = tier == 'quick'
    return {'examples': 250 if quick else 4000, 'tier': tier,
            'quick_sample': 1500,
            'configs': ((0, False), (2, True)),
            'prog_configs': ((0, False), (2, False), (1, True)),
            'bounds': {'pipeline_text_length': 5, 'alphabet': ALPHABET},
            'tick_budget': 60000, 'avoid': avoid,
            'exhaustive': not quick}


def setup_worker(cfg):
    X.set_parse_cache(True)


def items(cfg):
    import random
    texts = list(all_texts(5))
    rng = random.Random(derive_seed(ID, cfg.get('seed', 1), 0, 'items'))
    if cfg['tier'] == 'quick':
        rng.shuffle(texts)
        texts = texts[:cfg['quick_sample']]
    else:
        six = [''.join(rng.choice(ALPHABET) for _ in range(6))
               for _ in range(6000)]
        seven = [''.join(rng.choice(ALPHABET) for _ in range(7))
                 for _ in range(3000)]
        texts = texts + six + seven
    return texts


def check_pipeline(text, cfg):
    exp = expected_items(text)
    failures = []
    cls = ['pipeline']
    if exp is None:
        # malformed: must be treated alike everywhere (reject or accept)
        kinds = set()
        for c in cfg['configs']:
            m = X.compile_one('DATA ' + text + '\n', *c)
            kinds.add(m.key())
            if m.kind == 'host_exc':
                failures.append(('malformed:host_exc:' + m.bucket(),
                                 {'text': text}))
        if len(kinds) > 1:
            failures.append(('malformed:accept_differs', {'text': text}))
        cls.append('malformed')
        return failures, cls, False
    prog = pipeline_program(text, exp)
    want = ''.join('[%s]\r\n' % ('' if it is None else it[1]) for it in exp) \
        + 'end\r\n'
    for c in cfg['configs']:
        m = X.compile_one(prog, *c)
        name = X.cfg_name(c)
        if m.kind != 'accepted':
            failures.append(('pipeline:not_accepted', {
                'text': text, 'config': name, 'got': repr(m)}))
            continue
        # the data section itself
        flat = [x for part in m.module.data for x in part]
        got_items = [None if not isinstance(x, str) else x for x in flat]
        want_items = [None if it is None else it[1] for it in exp]
        if got_items != want_items:
            failures.append(('pipeline:data_section', {
                'text': text, 'config': name, 'got': got_items,
                'want': want_items}))
        r = X.execute(m.module, X.Script(), tick_budget=cfg['tick_budget'])
        printed = ''.join(e[1] for e in r.events if e[0] == 'print')
        if printed != want:
            failures.append(('pipeline:read_back', {
                'text': text, 'config': name, 'got': printed, 'want': want}))
        elif r.outcome[:2] != ('trap', 'DEVICE_ERROR'):
            failures.append(('pipeline:no_out_of_data', {
                'text': text, 'config': name, 'outcome': r.outcome[:2]}))
    nontrivial = '"' in text or any(it is None for it in exp)
    if any(it is None for it in exp):
        cls.append('empty_item')
    if '"' in text:
        cls.append('quote')
    if ':' in text:
        cls.append('colon')
    seen = {}
    for b, d in failures:
        seen.setdefault(b, d)
    return list(seen.items()), cls, nontrivial


def check_item(text, cfg):
    failures, cls, nontrivial = check_pipeline(text, cfg)
    return {'key': digest('DATA ' + text), 'nontrivial': nontrivial,
            'classes': cls,
            'failures': [{'bucket': b, 'detail': d,
                          'case': {'data_text': text}} for b, d in failures],
            'sample': {'data_text': text, 'expected_items': [
                None if it is None else it[1]
                for it in (expected_items(text) or [])]}
            if nontrivial and digest(text)[0] == '0' else None}


# ------------------------------------------------------------------ (ii)

class DGen:
    def __init__(self, draw):
        self.draw = draw
        self.stats = {}
        self.n = 0

    def i(self, lo, hi):
        return self.draw(st.integers(lo, hi))

    def chance(self, p):
        return self.draw(st.floats(0, 1, allow_nan=False)) < p

    def pick(self, seq):
        seq = list(seq)
        return seq[self.i(0, len(seq) - 1)]

    def note(self, k):
        self.stats[k] = self.stats.get(k, 0) + 1

    def item(self):
        r = self.i(0, 9)
        self.n += 1
        if r <= 4:
            return str(self.i(-40, 400)), 'int'
        if r == 5:
            return self.pick(['1.5', '-2.25', '.5', '3e2', '100000']), 'num'
        if r == 6:
            return '', 'empty'
        if r == 7:
            return '"q %d, x"' % self.n, 'str'
        return 'w%d' % self.n, 'str'

    def program(self):
        nstm = self.i(2, 6)
        datas = []        # (Data stmt, [(text, kind)])
        for _ in range(nstm):
            its = [self.item() for _ in range(self.i(1, 3))]
            datas.append((A.Data(', '.join(t for t, _ in its)), its))
        labels = ['dl%dz' % k if self.chance(0.6) else 100 + 10 * k
                  for k in range(self.i(0, 5))]
        if labels and not isinstance(labels[0], str) and self.chance(0.5):
            labels[0] = 0          # line number 0 is a line number too
        # slots: sequence of module-level units in source order
        units = [('data', d) for d in datas]
        for lb in labels:
            units.insert(self.i(0, len(units)), ('label', lb))
        # flat item list and label positions per the property
        flat = []
        label_pos = {}
        pending = []
        has_own = {}
        for k, u in enumerate(units):
            if u[0] == 'label':
                pending.append(u[1])
                has_own[u[1]] = (k + 1 < len(units) and
                                 units[k + 1][0] == 'data')
            else:
                for lb in pending:
                    label_pos[lb] = len(flat)
                pending = []
                flat.extend(u[1][1])
        for lb in pending:
            label_pos[lb] = len(flat)
        # operations
        ops = []
        pos = 0
        types_for = {'int': '%&!#$', 'num': '!#$', 'empty': '%&!#$',
                     'str': '$'}
        for _ in range(self.i(3, 14)):
            r = self.i(0, 9)
            if r <= 6:
                if pos < len(flat):
                    kind = flat[pos][1]
                    t = self.pick(types_for[kind])
                    if self.chance(0.05):
                        t = self.pick('%&!#$')       # possible DATA_TYPE error
                else:
                    t = self.pick('%&!#$')           # out of data
                    self.note('read_past_end')
                name = 'v%d%s' % (len(ops), t)
                ops.append(A.Read([A.LV(name, [], [], t)]))
                ops.append(A.Print([A.LV(name, [], [], t)]))
                pos += 1
            elif r == 7:
                ops.append(A.Restore(None))
                pos = 0
                self.note('restore')
            elif labels:
                lb = self.pick(labels)
                ops.append(A.Restore(lb))
                pos = label_pos[lb]
                self.note('restore_label')
                if not has_own.get(lb):
                    self.note('restore_label_without_own_data')
        # assemble: units interleaved with the operations; some code between
        body = []
        opq = list(ops)
        # a procedure placed in the middle of the DATA statements is not
        # possible (procedures follow module-level code); DATA may follow it
        after_proc = []
        k_after = self.i(0, len(units)) if self.chance(0.4) else len(units)
        for k, u in enumerate(units):
            tgt = body if k < k_after else after_proc
            if tgt is after_proc and u[0] == 'label':
                tgt = after_proc
            take = self.i(0, 3)
            if tgt is body:
                body.extend(opq[:take])
                del opq[:take]
            if u[0] == 'label':
                tgt.append(A.LabelDef(u[1]))
                if self.chance(0.5) and tgt is body:
                    tgt.append(A.Print([A.Str('at %s' % u[1])]))
            else:
                tgt.append(u[1][0])
        body.extend(opq)
        body.append(A.End())
        pbody = [A.Print([A.Str('p')])]
        if self.chance(0.5):
            # a label (or line number) of its own inside the procedure
            plab = self.pick(['pl9z', 7000])
            pbody = [A.LabelDef(plab), A.Print([A.Str('p')])]
            self.note('label_inside_procedure')
            if self.chance(0.6):
                # ... and a RESTORE to it from inside the procedure: it
                # continues with the first DATA statement after that label,
                # i.e. the DATA that follows the procedure (if any)
                zr = A.LV('zr$', [], [], '$')
                pbody += [A.Restore(plab), A.Read([zr]),
                          A.Print([A.Str('r'), ';', zr])]
                body.insert(self.i(0, len(body) - 1), A.CallSub('zq', []))
                self.note('restore_label_inside_procedure')
        proc = A.Proc('sub', 'zq', [], False, pbody)
        if after_proc:
            self.note('data_after_procedure')
            return A.Program(body + [proc] + after_proc)
        if self.chance(0.3) or any(isinstance(x, A.CallSub) for x in body):
            return A.Program(body + [proc])
        return A.Program(body)


@st.composite
def data_programs(draw):
    g = DGen(draw)
    return g.program(), g.stats


def strategy(cfg):
    return st.tuples(data_programs(), G.styles())


def check(case, cfg):
    (prog, stats), style = case
    failures, info = c01.judge(prog, {}, style, cfg,
                               configs=cfg['prog_configs'])
    key = digest(info['text'])
    nontrivial = info['accepted'] and not info['inconclusive'] and bool(
        stats.get('restore_label_without_own_data') or
        stats.get('data_after_procedure'))
    cls = ['placement'] + sorted('g:' + k for k in stats) + [
        'ref:' + info['ref_outcome']]
    fl = []
    if failures:
        enc = cases.encode_case(prog, {}, style)
        fl = [{'bucket': 'prog:' + b, 'detail': d, 'case': enc}
              for b, d in failures]
    return {'key': key, 'nontrivial': nontrivial, 'classes': cls,
            'failures': fl, 'inconclusive': info['inconclusive'],
            'sample': cases.sample_of(info['text'], {})
            if nontrivial and key[0] in '01' else None}


def replay(obj, cfg):
    if 'data_text' in obj:
        failures, _, _ = check_pipeline(obj['data_text'], cfg)
        return {'failures': [{'bucket': b, 'detail': d, 'case': obj}
                             for b, d in failures]}
    if 'expect' in obj:
        return c01.replay(obj, cfg)
    prog, script, style, text = cases.decode_case(obj)
    failures, info = c01.judge(prog, script, style, cfg,
                               configs=cfg['prog_configs'])
    return {'failures': [{'bucket': 'prog:' + b, 'detail': d, 'case': obj}
                         for b, d in failures]}


def shrink(failure, cfg):
    obj = failure['case']
    if not obj.get('ast'):
        return failure
    prog, script, style, text = cases.decode_case(obj)
    bucket = failure['bucket']

    def still(p):
        fs, _ = c01.judge(p, script, style, cfg, configs=cfg['prog_configs'])
        return any('prog:' + b == bucket for b, _ in fs)
    small = SH.shrink_program(prog, still, max_tests=60)
    fs, _ = c01.judge(small, script, style, cfg, configs=cfg['prog_configs'])
    for b, d in fs:
        if 'prog:' + b == bucket:
            return {'bucket': bucket, 'detail': d,
                    'case': cases.encode_case(small, script, style)}
    return failure
